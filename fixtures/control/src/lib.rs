//! Positive controls for the zero-count rules: every construct the rules forbid occurs here once.
//! The driver analyses this crate on every check run and each control must be reported; a rule
//! that misses its control is reported as broken (it could pass on /repo vacuously).
#![allow(dead_code, unused, static_mut_refs, invalid_reference_casting, mutable_transmutes)]
use std::cell::{Cell, RefCell, UnsafeCell};
use std::collections::{HashMap, HashSet};
use std::ptr::NonNull;
use std::sync::atomic::AtomicUsize;
use std::sync::{Arc, Mutex};

// ---- R-NOFORGE
pub unsafe fn ctl_const_to_mut(x: &[u8]) -> *mut u8 {
    x.as_ptr() as *mut u8
}
pub unsafe fn ctl_cast_mut(x: &[u8]) -> *mut u8 {
    x.as_ptr().cast_mut()
}
pub unsafe fn ctl_transmute_ref(x: &u32) -> &mut u32 {
    std::mem::transmute::<&u32, &mut u32>(x)
}
pub unsafe fn ctl_transmute_copy(x: &u32) -> &mut u32 {
    std::mem::transmute_copy::<&u32, &mut u32>(&x)
}
pub unsafe fn ctl_nonnull_from_shared(x: &u32) -> *mut u32 {
    NonNull::from(x).as_ptr()
}
pub unsafe fn ctl_int_to_ptr(a: usize) -> *mut u32 {
    a as *mut u32
}
pub unsafe fn ctl_unsafecell_get(c: &UnsafeCell<u32>) -> *mut u32 {
    c.get()
}
pub unsafe fn ctl_mutref_through_const(p: *const u32) -> &'static mut u32 {
    &mut *(p as *mut u32)
}
pub union CtlUnion {
    a: *const u32,
    b: *mut u32,
}
// must NOT be reported: mutability-preserving casts and the Box deref idiom
pub unsafe fn ok_mut_to_mut(x: &mut [u32]) -> *mut u64 {
    x.as_mut_ptr() as *mut u64
}
pub fn ok_box_deref_mut(b: &mut Box<[u32]>) {
    b[0] = 1;
    let s: &mut [u32] = &mut **b;
    s[1] = 2;
}
pub struct OkHolder {
    data: Box<[u32]>,
}
impl OkHolder {
    pub fn set(&mut self) {
        self.data[0] = 7;
        for x in self.data.iter_mut() {
            *x = 1;
        }
    }
}

// ---- R-NOSTATIC
pub static mut CTL_STATIC_MUT: u32 = 0;
pub static CTL_STATIC_ATOMIC: AtomicUsize = AtomicUsize::new(0);
thread_local! { pub static CTL_TLS: Cell<u32> = Cell::new(0); }
pub fn ctl_use_tls() -> u32 {
    CTL_TLS.with(|c| c.get())
}
pub static OK_STATIC_PLAIN: [usize; 3] = [1, 2, 3];

// ---- R-NOUNSAFEIMPL
pub struct CtlRaw(*mut u8);
unsafe impl Send for CtlRaw {}
unsafe impl Sync for CtlRaw {}

// ---- R-NOCELL
pub struct CtlCellField {
    hits: Cell<usize>,
}
pub struct CtlMutexBehindArc {
    inner: Arc<Vec<Box<Mutex<u32>>>>,
}
pub struct CtlMapOfRefCell {
    m: HashMap<usize, RefCell<u8>>,
}
pub enum CtlEnumAtomic {
    A,
    B(Option<AtomicUsize>),
}
pub struct OkPlain {
    v: Arc<Vec<Box<[u64]>>>,
    m: HashMap<usize, Arc<str>>,
    p: std::marker::PhantomData<Cell<u8>>,
}

// ---- R-NONDET
pub fn ctl_hash_iter(m: &HashMap<usize, usize>) -> usize {
    m.iter().map(|(k, _)| *k).next().unwrap_or(0)
}
pub fn ctl_hash_keys(m: &HashMap<usize, usize>) -> usize {
    m.keys().copied().next().unwrap_or(0)
}
pub fn ctl_hash_for(m: &HashMap<usize, usize>) -> usize {
    let mut s = 0;
    for (k, _) in m {
        s = *k;
    }
    s
}
pub fn ctl_hashset_iter(m: HashSet<usize>) -> usize {
    m.into_iter().next().unwrap_or(0)
}
pub fn ctl_clock() -> std::time::Instant {
    std::time::Instant::now()
}
pub fn ctl_env() -> bool {
    std::env::var("X").is_ok()
}
pub fn ctl_addr(x: &u32) -> usize {
    x as *const u32 as usize
}
pub fn ctl_arc_ptr(a: &Arc<u32>) -> bool {
    Arc::as_ptr(a).is_null()
}
pub fn ctl_thread_id() -> std::thread::ThreadId {
    std::thread::current().id()
}
pub fn ok_hash_get(m: &mut HashMap<usize, usize>) -> Option<usize> {
    m.insert(1, 2);
    if m.contains_key(&1) {
        m.get(&1).copied()
    } else {
        None
    }
}


// ---- hidden per-thread floating-point state (R-NOSTATIC)
#[cfg(target_arch = "x86_64")]
#[allow(deprecated)]
pub unsafe fn ctl_set_mxcsr() {
    use std::arch::x86_64::{_mm_getcsr, _mm_setcsr};
    _mm_setcsr(_mm_getcsr() | 0x8040);
}
#[cfg(target_arch = "x86_64")]
pub unsafe fn ctl_inline_asm() -> u64 {
    let x: u64;
    std::arch::asm!("mov {}, 5", out(reg) x);
    x
}


// ---- precision laundering (R-NOWIDEN)
pub fn ctl_widen_f32() -> f64 {
    std::f32::consts::FRAC_1_SQRT_2 as f64
}
pub fn ok_narrow_f64() -> f32 {
    (0.5f64).sqrt() as f32
}
