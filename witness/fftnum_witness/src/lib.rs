//! W-NUM: an element type that satisfies exactly the public numeric bound
//! `Copy + FromPrimitive + Signed + Sync + Send + Debug + 'static` and nothing else
//! (no Float, no Display, no Default, no PartialOrd). Q carries a 3-word payload, so
//! size_of::<Complex<Q>>() = 48, unlike Complex<f32> (8) and Complex<f64> (16).
//! It must type-check against the automatic planner, every SIMD planner constructor, every public
//! algorithm constructor and all Fft methods: the portable code can then use nothing beyond the bound.
#![allow(dead_code, unused_variables)]
use rustfft::algorithm::butterflies::*;
use rustfft::algorithm::*;
use rustfft::num_complex::Complex;
use rustfft::num_traits::{FromPrimitive, Num, One, Signed, Zero};
use rustfft::*;
use std::ops::{Add, Div, Mul, Neg, Rem, Sub};
use std::sync::Arc;

#[derive(Copy, Clone, Debug, PartialEq)]
pub struct Q([i64; 3]);

impl Add for Q {
    type Output = Q;
    fn add(self, o: Q) -> Q {
        Q([self.0[0].wrapping_add(o.0[0]), 0, 0])
    }
}
impl Sub for Q {
    type Output = Q;
    fn sub(self, o: Q) -> Q {
        Q([self.0[0].wrapping_sub(o.0[0]), 0, 0])
    }
}
impl Mul for Q {
    type Output = Q;
    fn mul(self, o: Q) -> Q {
        Q([self.0[0].wrapping_mul(o.0[0]), 0, 0])
    }
}
impl Div for Q {
    type Output = Q;
    fn div(self, o: Q) -> Q {
        Q([self.0[0].checked_div(o.0[0]).unwrap_or(0), 0, 0])
    }
}
impl Rem for Q {
    type Output = Q;
    fn rem(self, o: Q) -> Q {
        Q([self.0[0].checked_rem(o.0[0]).unwrap_or(0), 0, 0])
    }
}
impl Neg for Q {
    type Output = Q;
    fn neg(self) -> Q {
        Q([self.0[0].wrapping_neg(), 0, 0])
    }
}
impl Zero for Q {
    fn zero() -> Q {
        Q([0; 3])
    }
    fn is_zero(&self) -> bool {
        self.0[0] == 0
    }
}
impl One for Q {
    fn one() -> Q {
        Q([1, 0, 0])
    }
}
impl Num for Q {
    type FromStrRadixErr = ();
    fn from_str_radix(_s: &str, _r: u32) -> Result<Q, ()> {
        Err(())
    }
}
impl Signed for Q {
    fn abs(&self) -> Q {
        Q([self.0[0].wrapping_abs(), 0, 0])
    }
    fn abs_sub(&self, o: &Q) -> Q {
        if self.0[0] <= o.0[0] {
            Q::zero()
        } else {
            *self - *o
        }
    }
    fn signum(&self) -> Q {
        Q([self.0[0].signum(), 0, 0])
    }
    fn is_positive(&self) -> bool {
        self.0[0] > 0
    }
    fn is_negative(&self) -> bool {
        self.0[0] < 0
    }
}
impl FromPrimitive for Q {
    fn from_i64(n: i64) -> Option<Q> {
        Some(Q([n, 0, 0]))
    }
    fn from_u64(n: u64) -> Option<Q> {
        Some(Q([n as i64, 0, 0]))
    }
    fn from_f64(n: f64) -> Option<Q> {
        Some(Q([(n * 65536.0) as i64, 0, 0]))
    }
}

fn is_fftnum<T: FftNum>() {}
fn is_fft<X: Fft<Q> + 'static>(x: X) -> Arc<dyn Fft<Q>> {
    Arc::new(x)
}

pub fn q_is_an_element_type() {
    is_fftnum::<Q>();
    // automatic planner and every dedicated planner accept the type parameter
    let mut p = FftPlanner::<Q>::new();
    let f: Arc<dyn Fft<Q>> = p.plan_fft(12, FftDirection::Forward);
    let _ = p.plan_fft_forward(7);
    let _ = p.plan_fft_inverse(7);
    let mut s = FftPlannerScalar::<Q>::new();
    let g = s.plan_fft(35, FftDirection::Inverse);
    let _: Result<FftPlannerAvx<Q>, ()> = FftPlannerAvx::<Q>::new();
    let _: Result<FftPlannerSse<Q>, ()> = FftPlannerSse::<Q>::new();
    let _: Result<FftPlannerNeon<Q>, ()> = FftPlannerNeon::<Q>::new();
    let _: Result<FftPlannerWasmSimd<Q>, ()> = FftPlannerWasmSimd::<Q>::new();
    // every Fft method
    let mut buf = vec![Complex::<Q>::zero(); 12];
    let mut out = vec![Complex::<Q>::zero(); 12];
    let mut scratch = vec![Complex::<Q>::zero(); f.get_inplace_scratch_len() + f.get_outofplace_scratch_len() + f.get_immutable_scratch_len()];
    f.process(&mut buf);
    f.process_with_scratch(&mut buf, &mut scratch);
    f.process_outofplace_with_scratch(&mut buf, &mut out, &mut scratch);
    f.process_immutable_with_scratch(&buf, &mut out, &mut scratch);
    let _ = (f.len(), f.fft_direction());
    // every public algorithm constructor
    let d = FftDirection::Forward;
    let a = is_fft(Dft::<Q>::new(5, d));
    let b = is_fft(Radix4::<Q>::new(64, d));
    let _ = is_fft(Radix4::<Q>::new_with_base(2, a.clone()));
    let _ = is_fft(Radix3::<Q>::new(27, d));
    let _ = is_fft(Radix3::<Q>::new_with_base(2, a.clone()));
    let _ = is_fft(MixedRadix::<Q>::new(a.clone(), b.clone()));
    let _ = is_fft(MixedRadixSmall::<Q>::new(a.clone(), b.clone()));
    let _ = is_fft(GoodThomasAlgorithm::<Q>::new(a.clone(), b.clone()));
    let _ = is_fft(GoodThomasAlgorithmSmall::<Q>::new(a.clone(), b.clone()));
    let _ = is_fft(RadersAlgorithm::<Q>::new(b.clone()));
    let _ = is_fft(BluesteinsAlgorithm::<Q>::new(5, b.clone()));
    let _ = is_fft(Butterfly1::<Q>::new(d));
    let _ = is_fft(Butterfly2::<Q>::new(d));
    let _ = is_fft(Butterfly3::<Q>::new(d));
    let _ = is_fft(Butterfly4::<Q>::new(d));
    let _ = is_fft(Butterfly5::<Q>::new(d));
    let _ = is_fft(Butterfly6::<Q>::new(d));
    let _ = is_fft(Butterfly7::<Q>::new(d));
    let _ = is_fft(Butterfly8::<Q>::new(d));
    let _ = is_fft(Butterfly9::<Q>::new(d));
    let _ = is_fft(Butterfly11::<Q>::new(d));
    let _ = is_fft(Butterfly12::<Q>::new(d));
    let _ = is_fft(Butterfly13::<Q>::new(d));
    let _ = is_fft(Butterfly16::<Q>::new(d));
    let _ = is_fft(Butterfly17::<Q>::new(d));
    let _ = is_fft(Butterfly19::<Q>::new(d));
    let _ = is_fft(Butterfly23::<Q>::new(d));
    let _ = is_fft(Butterfly24::<Q>::new(d));
    let _ = is_fft(Butterfly27::<Q>::new(d));
    let _ = is_fft(Butterfly29::<Q>::new(d));
    let _ = is_fft(Butterfly31::<Q>::new(d));
    let _ = is_fft(Butterfly32::<Q>::new(d));
}
