//! expect: E0277
//! twin: a type that lacks one part of the bound (Signed) must be rejected as FftNum, so the
//! positive witness really exercises the bound.
#[derive(Copy, Clone, Debug, PartialEq)]
pub struct NotSigned(i64);
fn is_fftnum<T: rustfft::FftNum>() {}
pub fn twin() {
    is_fftnum::<f32>();
    is_fftnum::<NotSigned>();
}
