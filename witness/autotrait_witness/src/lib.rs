//! W-AUTO: compile-time Send + Sync obligations for every public transform / planner type,
//! for a generic T: FftNum as well as f32 and f64, and for the trait objects planners hand out.
#![allow(dead_code)]
use rustfft::algorithm::butterflies::*;
use rustfft::algorithm::*;
use rustfft::*;
use std::sync::Arc;

fn send_sync<X: Send + Sync + ?Sized>() {}
fn shareable<X: Send + Sync + 'static + ?Sized>() {}

fn all<T: FftNum>() {
    send_sync::<dyn Fft<T>>();
    shareable::<Arc<dyn Fft<T>>>();
    send_sync::<&dyn Fft<T>>();
    send_sync::<FftDirection>();
    shareable::<FftPlanner<T>>();
    shareable::<FftPlannerScalar<T>>();
    shareable::<FftPlannerAvx<T>>();
    shareable::<FftPlannerSse<T>>();
    shareable::<FftPlannerNeon<T>>();
    shareable::<FftPlannerWasmSimd<T>>();
    shareable::<BluesteinsAlgorithm<T>>();
    shareable::<Dft<T>>();
    shareable::<GoodThomasAlgorithm<T>>();
    shareable::<GoodThomasAlgorithmSmall<T>>();
    shareable::<MixedRadix<T>>();
    shareable::<MixedRadixSmall<T>>();
    shareable::<RadersAlgorithm<T>>();
    shareable::<Radix3<T>>();
    shareable::<Radix4<T>>();
    shareable::<Butterfly1<T>>();
    shareable::<Butterfly2<T>>();
    shareable::<Butterfly3<T>>();
    shareable::<Butterfly4<T>>();
    shareable::<Butterfly5<T>>();
    shareable::<Butterfly6<T>>();
    shareable::<Butterfly7<T>>();
    shareable::<Butterfly8<T>>();
    shareable::<Butterfly9<T>>();
    shareable::<Butterfly11<T>>();
    shareable::<Butterfly12<T>>();
    shareable::<Butterfly13<T>>();
    shareable::<Butterfly16<T>>();
    shareable::<Butterfly17<T>>();
    shareable::<Butterfly19<T>>();
    shareable::<Butterfly23<T>>();
    shareable::<Butterfly24<T>>();
    shareable::<Butterfly27<T>>();
    shareable::<Butterfly29<T>>();
    shareable::<Butterfly31<T>>();
    shareable::<Butterfly32<T>>();
}

// Fft: Send + Sync as supertraits: any implementor, known or not, is shareable
fn any_impl<T: FftNum, X: Fft<T>>() {
    send_sync::<X>();
}
fn any_dyn<T: FftNum>(f: Arc<dyn Fft<T>>) {
    // the concurrency example of the repository: clone into threads
    let g = Arc::clone(&f);
    let h = std::thread::spawn(move || g.len());
    let _ = h.join();
    let _ = f.len();
}

pub fn instantiate() {
    all::<f32>();
    all::<f64>();
}
