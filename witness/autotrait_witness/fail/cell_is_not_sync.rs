//! expect: E0277
//! twin: the same helper must reject a type with interior mutability, so the obligations in
//! src/lib.rs are real (a helper with a wrong bound would accept everything).
fn shareable<X: Send + Sync + 'static + ?Sized>() {}
pub fn twin() {
    shareable::<rustfft::algorithm::Radix4<f32>>();
    shareable::<std::cell::RefCell<rustfft::algorithm::Radix4<f32>>>();
}
