//! expect: E0277
//! twin: a transform wrapped in Rc must not be accepted as Send.
fn send_sync<X: Send + Sync + ?Sized>() {}
pub fn twin() {
    send_sync::<std::sync::Arc<dyn rustfft::Fft<f64>>>();
    send_sync::<std::rc::Rc<dyn rustfft::Fft<f64>>>();
}
