//! expect: E0308
//! twin: an ascription with a wrong signature must fail with a type mismatch, proving the
//! `let _: fn(..) -> .. = path;` form really compares signatures.
use rustfft::{FftDirection, FftPlanner, Fft};
use std::sync::Arc;
pub fn twin() {
    let _: fn(&mut FftPlanner<f32>, usize, FftDirection) -> Arc<dyn Fft<f32>> = FftPlanner::<f32>::plan_fft;
    let _: fn(&mut FftPlanner<f32>, u32, FftDirection) -> Arc<dyn Fft<f32>> = FftPlanner::<f32>::plan_fft;
}
