//! expect: E0277
//! twin of src/lib.rs: a type that is not Sync must be rejected by the same `send_sync` helper,
//! proving the auto-trait ascriptions in the witness are real obligations.
fn send_sync<X: Send + Sync + ?Sized>() {}
pub fn twin() {
    send_sync::<rustfft::FftPlanner<f32>>();
    send_sync::<std::cell::Cell<rustfft::FftDirection>>();
}
