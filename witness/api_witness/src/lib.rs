//! W-API: a downstream crate written against the rustfft 6.4.1 public surface.
//! Frozen: generated once from the pinned 6.4.1 tree (public item list from the driver's surface
//! walk), then reviewed by hand. Every public function is named with an explicit signature
//! ascription, every trait with the exact 6.4.1 bounds, every public type with its auto traits.
//! If this crate stops type-checking against /repo, a 6.x program stopped compiling.
#![allow(dead_code, unused_variables, unused_imports, clippy::all)]

use rustfft::algorithm::butterflies::*;
use rustfft::algorithm::{
    BluesteinsAlgorithm, Dft, GoodThomasAlgorithm, GoodThomasAlgorithmSmall, MixedRadix,
    MixedRadixSmall, RadersAlgorithm, Radix3, Radix4,
};
use rustfft::num_complex::Complex;
use rustfft::num_traits::{FromPrimitive, Signed, Zero};
use rustfft::{
    Direction, Fft, FftDirection, FftNum, FftPlanner, FftPlannerAvx, FftPlannerNeon,
    FftPlannerScalar, FftPlannerSse, FftPlannerWasmSimd, Length,
};
use std::fmt::{Debug, Display};
use std::sync::Arc;

fn send_sync<X: Send + Sync + ?Sized>() {}
fn is_static<X: 'static + ?Sized>() {}
fn is_fft<T: FftNum, X: Fft<T> + Length + Direction + Send + Sync + ?Sized>() {}
fn is_fftnum<T: FftNum>() {}

// ---- FftNum: the blanket impl covers exactly this bound (not tightened) ...
fn fftnum_not_tightened<T: Copy + FromPrimitive + Signed + Sync + Send + Debug + 'static>() {
    is_fftnum::<T>();
}
// ... and still implies each part of it (not loosened)
fn fftnum_not_loosened<T: FftNum>() {
    fn c<X: Copy>() {}
    fn fp<X: FromPrimitive>() {}
    fn sg<X: Signed>() {}
    fn ss<X: Sync + Send>() {}
    fn db<X: Debug>() {}
    fn st<X: 'static>() {}
    c::<T>();
    fp::<T>();
    sg::<T>();
    ss::<T>();
    db::<T>();
    st::<T>();
}
fn floats_are_fftnum() {
    is_fftnum::<f32>();
    is_fftnum::<f64>();
}

// ---- FftDirection
fn direction_enum(d: FftDirection) -> FftDirection {
    fn derives<X: Copy + Clone + PartialEq + Eq + Debug + Display + Send + Sync + 'static>() {}
    derives::<FftDirection>();
    let _: fn(&FftDirection) -> FftDirection = FftDirection::opposite_direction;
    // exhaustive match without wildcard: the enum is not #[non_exhaustive] in 6.4.1
    match d {
        FftDirection::Forward => FftDirection::Inverse,
        FftDirection::Inverse => FftDirection::Forward,
    }
}

// ---- traits and their methods
fn trait_methods<T: FftNum, X: Fft<T>>() {
    let _: fn(&X) -> usize = <X as Length>::len;
    let _: fn(&X) -> FftDirection = <X as Direction>::fft_direction;
    let _: fn(&X, &mut [Complex<T>]) = <X as Fft<T>>::process;
    let _: fn(&X, &mut [Complex<T>], &mut [Complex<T>]) = <X as Fft<T>>::process_with_scratch;
    let _: fn(&X, &mut [Complex<T>], &mut [Complex<T>], &mut [Complex<T>]) =
        <X as Fft<T>>::process_outofplace_with_scratch;
    let _: fn(&X, &[Complex<T>], &mut [Complex<T>], &mut [Complex<T>]) =
        <X as Fft<T>>::process_immutable_with_scratch;
    let _: fn(&X) -> usize = <X as Fft<T>>::get_inplace_scratch_len;
    let _: fn(&X) -> usize = <X as Fft<T>>::get_outofplace_scratch_len;
    let _: fn(&X) -> usize = <X as Fft<T>>::get_immutable_scratch_len;
    // supertraits
    fn sup<Y: Length + Direction + Sync + Send + ?Sized>() {}
    sup::<X>();
}
fn trait_objects<T: FftNum>(f: Arc<dyn Fft<T>>, buf: &mut [Complex<T>], out: &mut [Complex<T>], inp: &[Complex<T>]) {
    send_sync::<dyn Fft<T>>();
    send_sync::<Arc<dyn Fft<T>>>();
    is_static::<Arc<dyn Fft<T>>>();
    is_fft::<T, dyn Fft<T>>();
    let n: usize = f.len();
    let d: FftDirection = f.fft_direction();
    f.process(buf);
    let mut scratch = vec![Complex::<T>::zero(); f.get_inplace_scratch_len()];
    f.process_with_scratch(buf, &mut scratch);
    f.process_outofplace_with_scratch(buf, out, &mut scratch);
    f.process_immutable_with_scratch(inp, out, &mut scratch);
    let _: usize = f.get_outofplace_scratch_len();
    let _: usize = f.get_immutable_scratch_len();
    // object safety of Length and Direction
    let _: &dyn Length = &*f;
    let _: &dyn Direction = &*f;
}

// a downstream implementor providing exactly the required methods of 6.4.1
struct Mine;
impl Length for Mine {
    fn len(&self) -> usize {
        1
    }
}
impl Direction for Mine {
    fn fft_direction(&self) -> FftDirection {
        FftDirection::Forward
    }
}
impl Fft<f32> for Mine {
    fn process_with_scratch(&self, _buffer: &mut [Complex<f32>], _scratch: &mut [Complex<f32>]) {}
    fn process_outofplace_with_scratch(
        &self,
        _input: &mut [Complex<f32>],
        _output: &mut [Complex<f32>],
        _scratch: &mut [Complex<f32>],
    ) {
    }
    fn process_immutable_with_scratch(
        &self,
        _input: &[Complex<f32>],
        _output: &mut [Complex<f32>],
        _scratch: &mut [Complex<f32>],
    ) {
    }
    fn get_inplace_scratch_len(&self) -> usize {
        0
    }
    fn get_outofplace_scratch_len(&self) -> usize {
        0
    }
    fn get_immutable_scratch_len(&self) -> usize {
        0
    }
}
fn mine_is_usable() {
    let a: Arc<dyn Fft<f32>> = Arc::new(Mine);
    let _ = MixedRadix::new(a.clone(), a);
}

// ---- planners
fn planners<T: FftNum>() {
    let _: fn() -> FftPlanner<T> = FftPlanner::<T>::new;
    let _: fn(&mut FftPlanner<T>, usize, FftDirection) -> Arc<dyn Fft<T>> = FftPlanner::<T>::plan_fft;
    let _: fn(&mut FftPlanner<T>, usize) -> Arc<dyn Fft<T>> = FftPlanner::<T>::plan_fft_forward;
    let _: fn(&mut FftPlanner<T>, usize) -> Arc<dyn Fft<T>> = FftPlanner::<T>::plan_fft_inverse;
    let _: fn() -> FftPlannerScalar<T> = FftPlannerScalar::<T>::new;
    let _: fn(&mut FftPlannerScalar<T>, usize, FftDirection) -> Arc<dyn Fft<T>> = FftPlannerScalar::<T>::plan_fft;
    let _: fn(&mut FftPlannerScalar<T>, usize) -> Arc<dyn Fft<T>> = FftPlannerScalar::<T>::plan_fft_forward;
    let _: fn(&mut FftPlannerScalar<T>, usize) -> Arc<dyn Fft<T>> = FftPlannerScalar::<T>::plan_fft_inverse;
    let _: fn() -> Result<FftPlannerAvx<T>, ()> = FftPlannerAvx::<T>::new;
    let _: fn(&mut FftPlannerAvx<T>, usize, FftDirection) -> Arc<dyn Fft<T>> = FftPlannerAvx::<T>::plan_fft;
    let _: fn(&mut FftPlannerAvx<T>, usize) -> Arc<dyn Fft<T>> = FftPlannerAvx::<T>::plan_fft_forward;
    let _: fn(&mut FftPlannerAvx<T>, usize) -> Arc<dyn Fft<T>> = FftPlannerAvx::<T>::plan_fft_inverse;
    let _: fn() -> Result<FftPlannerSse<T>, ()> = FftPlannerSse::<T>::new;
    let _: fn(&mut FftPlannerSse<T>, usize, FftDirection) -> Arc<dyn Fft<T>> = FftPlannerSse::<T>::plan_fft;
    let _: fn(&mut FftPlannerSse<T>, usize) -> Arc<dyn Fft<T>> = FftPlannerSse::<T>::plan_fft_forward;
    let _: fn(&mut FftPlannerSse<T>, usize) -> Arc<dyn Fft<T>> = FftPlannerSse::<T>::plan_fft_inverse;
    let _: fn() -> Result<FftPlannerNeon<T>, ()> = FftPlannerNeon::<T>::new;
    let _: fn(&mut FftPlannerNeon<T>, usize, FftDirection) -> Arc<dyn Fft<T>> = FftPlannerNeon::<T>::plan_fft;
    let _: fn(&mut FftPlannerNeon<T>, usize) -> Arc<dyn Fft<T>> = FftPlannerNeon::<T>::plan_fft_forward;
    let _: fn(&mut FftPlannerNeon<T>, usize) -> Arc<dyn Fft<T>> = FftPlannerNeon::<T>::plan_fft_inverse;
    let _: fn() -> Result<FftPlannerWasmSimd<T>, ()> = FftPlannerWasmSimd::<T>::new;
    let _: fn(&mut FftPlannerWasmSimd<T>, usize, FftDirection) -> Arc<dyn Fft<T>> = FftPlannerWasmSimd::<T>::plan_fft;
    let _: fn(&mut FftPlannerWasmSimd<T>, usize) -> Arc<dyn Fft<T>> = FftPlannerWasmSimd::<T>::plan_fft_forward;
    let _: fn(&mut FftPlannerWasmSimd<T>, usize) -> Arc<dyn Fft<T>> = FftPlannerWasmSimd::<T>::plan_fft_inverse;
    send_sync::<FftPlanner<T>>();
    send_sync::<FftPlannerScalar<T>>();
    send_sync::<FftPlannerAvx<T>>();
    send_sync::<FftPlannerSse<T>>();
    send_sync::<FftPlannerNeon<T>>();
    send_sync::<FftPlannerWasmSimd<T>>();
    is_static::<FftPlanner<T>>();
}

// ---- algorithms
fn algorithms<T: FftNum>() {
    let _: fn(usize, Arc<dyn Fft<T>>) -> BluesteinsAlgorithm<T> = BluesteinsAlgorithm::<T>::new;
    let _: fn(usize, FftDirection) -> Dft<T> = Dft::<T>::new;
    let _: fn(Arc<dyn Fft<T>>, Arc<dyn Fft<T>>) -> GoodThomasAlgorithm<T> = GoodThomasAlgorithm::<T>::new;
    let _: fn(Arc<dyn Fft<T>>, Arc<dyn Fft<T>>) -> GoodThomasAlgorithmSmall<T> = GoodThomasAlgorithmSmall::<T>::new;
    let _: fn(Arc<dyn Fft<T>>, Arc<dyn Fft<T>>) -> MixedRadix<T> = MixedRadix::<T>::new;
    let _: fn(Arc<dyn Fft<T>>, Arc<dyn Fft<T>>) -> MixedRadixSmall<T> = MixedRadixSmall::<T>::new;
    let _: fn(Arc<dyn Fft<T>>) -> RadersAlgorithm<T> = RadersAlgorithm::<T>::new;
    let _: fn(usize, FftDirection) -> Radix3<T> = Radix3::<T>::new;
    let _: fn(u32, Arc<dyn Fft<T>>) -> Radix3<T> = Radix3::<T>::new_with_base;
    let _: fn(usize, FftDirection) -> Radix4<T> = Radix4::<T>::new;
    let _: fn(u32, Arc<dyn Fft<T>>) -> Radix4<T> = Radix4::<T>::new_with_base;
    is_fft::<T, BluesteinsAlgorithm<T>>();
    trait_methods::<T, BluesteinsAlgorithm<T>>();
    is_static::<BluesteinsAlgorithm<T>>();
    is_fft::<T, Dft<T>>();
    trait_methods::<T, Dft<T>>();
    is_static::<Dft<T>>();
    is_fft::<T, GoodThomasAlgorithm<T>>();
    trait_methods::<T, GoodThomasAlgorithm<T>>();
    is_static::<GoodThomasAlgorithm<T>>();
    is_fft::<T, GoodThomasAlgorithmSmall<T>>();
    trait_methods::<T, GoodThomasAlgorithmSmall<T>>();
    is_static::<GoodThomasAlgorithmSmall<T>>();
    is_fft::<T, MixedRadix<T>>();
    trait_methods::<T, MixedRadix<T>>();
    is_static::<MixedRadix<T>>();
    is_fft::<T, MixedRadixSmall<T>>();
    trait_methods::<T, MixedRadixSmall<T>>();
    is_static::<MixedRadixSmall<T>>();
    is_fft::<T, RadersAlgorithm<T>>();
    trait_methods::<T, RadersAlgorithm<T>>();
    is_static::<RadersAlgorithm<T>>();
    is_fft::<T, Radix3<T>>();
    trait_methods::<T, Radix3<T>>();
    is_static::<Radix3<T>>();
    is_fft::<T, Radix4<T>>();
    trait_methods::<T, Radix4<T>>();
    is_static::<Radix4<T>>();
}

// ---- butterflies
fn butterflies<T: FftNum>() {
    let _: fn(FftDirection) -> Butterfly1<T> = Butterfly1::<T>::new;
    is_fft::<T, Butterfly1<T>>();
    trait_methods::<T, Butterfly1<T>>();
    let _: fn(FftDirection) -> Butterfly2<T> = Butterfly2::<T>::new;
    is_fft::<T, Butterfly2<T>>();
    trait_methods::<T, Butterfly2<T>>();
    let _: fn(FftDirection) -> Butterfly3<T> = Butterfly3::<T>::new;
    is_fft::<T, Butterfly3<T>>();
    trait_methods::<T, Butterfly3<T>>();
    let _: fn(FftDirection) -> Butterfly4<T> = Butterfly4::<T>::new;
    is_fft::<T, Butterfly4<T>>();
    trait_methods::<T, Butterfly4<T>>();
    let _: fn(FftDirection) -> Butterfly5<T> = Butterfly5::<T>::new;
    is_fft::<T, Butterfly5<T>>();
    trait_methods::<T, Butterfly5<T>>();
    let _: fn(FftDirection) -> Butterfly6<T> = Butterfly6::<T>::new;
    is_fft::<T, Butterfly6<T>>();
    trait_methods::<T, Butterfly6<T>>();
    let _: fn(FftDirection) -> Butterfly7<T> = Butterfly7::<T>::new;
    is_fft::<T, Butterfly7<T>>();
    trait_methods::<T, Butterfly7<T>>();
    let _: fn(FftDirection) -> Butterfly8<T> = Butterfly8::<T>::new;
    is_fft::<T, Butterfly8<T>>();
    trait_methods::<T, Butterfly8<T>>();
    let _: fn(FftDirection) -> Butterfly9<T> = Butterfly9::<T>::new;
    is_fft::<T, Butterfly9<T>>();
    trait_methods::<T, Butterfly9<T>>();
    let _: fn(FftDirection) -> Butterfly11<T> = Butterfly11::<T>::new;
    is_fft::<T, Butterfly11<T>>();
    trait_methods::<T, Butterfly11<T>>();
    let _: fn(FftDirection) -> Butterfly12<T> = Butterfly12::<T>::new;
    is_fft::<T, Butterfly12<T>>();
    trait_methods::<T, Butterfly12<T>>();
    let _: fn(FftDirection) -> Butterfly13<T> = Butterfly13::<T>::new;
    is_fft::<T, Butterfly13<T>>();
    trait_methods::<T, Butterfly13<T>>();
    let _: fn(FftDirection) -> Butterfly16<T> = Butterfly16::<T>::new;
    is_fft::<T, Butterfly16<T>>();
    trait_methods::<T, Butterfly16<T>>();
    let _: fn(FftDirection) -> Butterfly17<T> = Butterfly17::<T>::new;
    is_fft::<T, Butterfly17<T>>();
    trait_methods::<T, Butterfly17<T>>();
    let _: fn(FftDirection) -> Butterfly19<T> = Butterfly19::<T>::new;
    is_fft::<T, Butterfly19<T>>();
    trait_methods::<T, Butterfly19<T>>();
    let _: fn(FftDirection) -> Butterfly23<T> = Butterfly23::<T>::new;
    is_fft::<T, Butterfly23<T>>();
    trait_methods::<T, Butterfly23<T>>();
    let _: fn(FftDirection) -> Butterfly24<T> = Butterfly24::<T>::new;
    is_fft::<T, Butterfly24<T>>();
    trait_methods::<T, Butterfly24<T>>();
    let _: fn(FftDirection) -> Butterfly27<T> = Butterfly27::<T>::new;
    is_fft::<T, Butterfly27<T>>();
    trait_methods::<T, Butterfly27<T>>();
    let _: fn(FftDirection) -> Butterfly29<T> = Butterfly29::<T>::new;
    is_fft::<T, Butterfly29<T>>();
    trait_methods::<T, Butterfly29<T>>();
    let _: fn(FftDirection) -> Butterfly31<T> = Butterfly31::<T>::new;
    is_fft::<T, Butterfly31<T>>();
    trait_methods::<T, Butterfly31<T>>();
    let _: fn(FftDirection) -> Butterfly32<T> = Butterfly32::<T>::new;
    is_fft::<T, Butterfly32<T>>();
    trait_methods::<T, Butterfly32<T>>();
    let _: fn(&Butterfly3<T>) -> Butterfly3<T> = Butterfly3::<T>::direction_of;
    let _: fn(&Butterfly6<T>) -> Butterfly6<T> = Butterfly6::<T>::direction_of;
}
fn butterfly3_public_field(b: Butterfly3<f64>) -> Complex<f64> {
    b.twiddle
}

// ---- the paths through which the same items are reachable in 6.4.1
fn alternate_paths() {
    let _: fn(FftDirection) -> rustfft::algorithm::butterflies::Butterfly8<f32> =
        rustfft::algorithm::butterflies::Butterfly8::<f32>::new;
    let _: rustfft::num_complex::Complex<f32> = rustfft::num_complex::Complex::new(0.0, 0.0);
    let _: f64 = <f64 as rustfft::num_traits::Zero>::zero();
    let _: Option<f32> = <f32 as rustfft::num_traits::FromPrimitive>::from_f64(1.0);
}

// ---- concrete instantiations
pub fn instantiate() {
    planners::<f32>();
    planners::<f64>();
    algorithms::<f32>();
    algorithms::<f64>();
    butterflies::<f32>();
    butterflies::<f64>();
    fftnum_not_loosened::<f32>();
    fftnum_not_tightened::<f64>();
    let mut p = FftPlanner::<f64>::new();
    let f = p.plan_fft(1234, FftDirection::Forward);
    let mut buf = vec![Complex { re: 0.0f64, im: 0.0 }; 1234];
    f.process(&mut buf);
    let g = p.plan_fft_inverse(1234);
    drop(p);
    g.process(&mut buf);
    std::thread::spawn(move || g.len()).join().unwrap();
}
