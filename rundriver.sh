#!/bin/bash
# usage: rundriver.sh <src-dir> <out.jsonl> [cargo feature args...]
set -e
SRC=$1; OUT=$2; shift 2
T=$(mktemp -d /tmp/rfv.XXXXXX)
trap 'rm -rf "$T"' EXIT
cd "$SRC"
LD_LIBRARY_PATH=$(rustc +nightly --print sysroot)/lib \
RUSTFLAGS="-Zmir-opt-level=0 -Awarnings -Cdebug-assertions=off -Coverflow-checks=off" \
RUSTC_WORKSPACE_WRAPPER=/verif/driver/target/release/rfv-driver \
RFV_OUT=$OUT CARGO_TARGET_DIR=$T/target CARGO_NET_OFFLINE=true \
cargo +nightly check --offline --lib "$@" 2>$T/log || { cat $T/log; exit 2; }
test -s "$OUT"
