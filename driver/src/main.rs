//! rfv-driver: a rustc wrapper that dumps the type-checked RustFFT crate (items + MIR) as JSON
//! lines for the rule engine in /verif/rules. It is injected with RUSTC_WORKSPACE_WRAPPER and
//! behaves exactly like rustc for every crate except the one named in RFV_CRATE (default
//! "rustfft"), for which it additionally writes the fact file named in RFV_OUT after analysis.
#![feature(rustc_private)]
#![feature(box_patterns)]
#![feature(never_type)]

extern crate rustc_abi;
extern crate rustc_data_structures;
extern crate rustc_driver;
extern crate rustc_hir;
extern crate rustc_interface;
extern crate rustc_middle;
extern crate rustc_session;
extern crate rustc_span;
extern crate rustc_target;

mod dump;
mod json;

use rustc_driver::{Callbacks, Compilation};
use rustc_interface::interface::Compiler;
use rustc_middle::ty::TyCtxt;
use rustc_span::def_id::LOCAL_CRATE;

struct Cb;

impl Callbacks for Cb {
    fn after_analysis<'tcx>(&mut self, _c: &Compiler, tcx: TyCtxt<'tcx>) -> Compilation {
        let want = std::env::var("RFV_CRATE").unwrap_or_else(|_| "rustfft".to_string());
        let name = tcx.crate_name(LOCAL_CRATE).to_string();
        if name != want {
            return Compilation::Continue;
        }
        // skip build scripts / test harness variants
        let out = match std::env::var("RFV_OUT") {
            Ok(o) => o,
            Err(_) => return Compilation::Continue,
        };
        let text = dump::dump_crate(tcx);
        // one write per process
        std::fs::write(&out, text).expect("rfv-driver: cannot write RFV_OUT");
        Compilation::Continue
    }
}

fn main() {
    let mut args: Vec<String> = std::env::args().collect();
    // RUSTC_WORKSPACE_WRAPPER passes the real rustc path as argv[1]
    if args.len() > 1 && (args[1].ends_with("rustc") || args[1].contains("/rustc")) {
        args.remove(1);
    }
    rustc_driver::run_compiler(&args, &mut Cb);
}
