//! Dump of the type-checked crate: items, public surface, type table and MIR bodies.
use crate::json::J;
use rustc_data_structures::fx::{FxHashMap, FxHashSet};
use rustc_hir::def::{DefKind, Res};
use rustc_hir::def_id::{DefId, LocalDefId, CRATE_DEF_ID};
use rustc_middle::mir::{
    self, AggregateKind, BasicBlockData, Body, BorrowKind, CastKind, Const as MirConst, Operand,
    Place, ProjectionElem, Rvalue, StatementKind, TerminatorKind,
};
use rustc_middle::ty::print::with_no_trimmed_paths;
use rustc_middle::ty::print::PrintTraitRefExt;
use rustc_middle::ty::{self, GenericArgKind, GenericArgsRef, Ty, TyCtxt, TypingEnv};
use rustc_span::Span;

pub struct Cx<'tcx> {
    pub tcx: TyCtxt<'tcx>,
    types: FxHashMap<Ty<'tcx>, usize>,
    type_tab: Vec<J>,
    cur: Option<&'tcx mir::LocalDecls<'tcx>>,
}

fn o(v: Vec<(&'static str, J)>) -> J {
    J::Obj(v)
}

impl<'tcx> Cx<'tcx> {
    fn did(&self, d: DefId) -> String {
        let krate = self.tcx.crate_name(d.krate).to_string();
        format!("{}{}", krate, self.tcx.def_path(d).to_string_no_crate_verbose())
    }
    fn dname(&self, d: DefId) -> String {
        with_no_trimmed_paths!(self.tcx.def_path_str(d))
    }
    fn tys(&self, t: Ty<'tcx>) -> String {
        with_no_trimmed_paths!(format!("{}", t))
    }

    fn span_j(&self, sp: Span) -> Vec<(&'static str, J)> {
        let sm = self.tcx.sess.source_map();
        let mut v = Vec::new();
        let lo = sm.lookup_char_pos(sp.lo());
        v.push(("l", J::n(lo.line)));
        if sp.from_expansion() {
            let ed = sp.ctxt().outer_expn_data();
            let name = match ed.kind {
                rustc_span::ExpnKind::Macro(_, sym) => sym.to_string(),
                rustc_span::ExpnKind::Desugaring(d) => format!("desugar:{:?}", d),
                rustc_span::ExpnKind::AstPass(_) => "astpass".to_string(),
                rustc_span::ExpnKind::Root => "root".to_string(),
            };
            let local = ed.macro_def_id.map(|d| d.is_local()).unwrap_or(false);
            v.push(("m", J::s(format!("{}:{}", if local { "L" } else { "X" }, name))));
            // line of the outermost call site (where the user wrote the macro invocation)
            let cs = sp.source_callsite();
            let clo = sm.lookup_char_pos(cs.lo());
            v.push(("cl", J::n(clo.line)));
            v.push(("cf", J::s(self.file_name(cs))));
        }
        v
    }
    fn file_name(&self, sp: Span) -> String {
        let sm = self.tcx.sess.source_map();
        let f = sm.lookup_char_pos(sp.lo()).file;
        format!("{}", f.name.prefer_local_unconditionally())
    }

    // ------------------------------------------------------------------ types
    pub fn ty_id(&mut self, t: Ty<'tcx>) -> usize {
        if let Some(&i) = self.types.get(&t) {
            return i;
        }
        // reserve the slot first (recursive types go through ADT paths, not structure, so no cycles)
        let idx = self.type_tab.len();
        self.type_tab.push(J::Null);
        self.types.insert(t, idx);
        let j = self.ty_json(t);
        self.type_tab[idx] = j;
        idx
    }

    fn args_json(&mut self, args: GenericArgsRef<'tcx>) -> J {
        let mut v = Vec::new();
        for a in args.iter() {
            match a.kind() {
                GenericArgKind::Type(t) => v.push(J::n(self.ty_id(t))),
                GenericArgKind::Const(c) => {
                    v.push(o(vec![("const", J::s(with_no_trimmed_paths!(format!("{}", c))))]))
                }
                GenericArgKind::Lifetime(_) => {}
            }
        }
        J::Arr(v)
    }

    fn ty_json(&mut self, t: Ty<'tcx>) -> J {
        let s = J::s(self.tys(t));
        match *t.kind() {
            ty::Bool | ty::Char | ty::Int(_) | ty::Uint(_) | ty::Float(_) | ty::Str | ty::Never => {
                o(vec![("k", J::s("prim")), ("s", s)])
            }
            ty::Adt(def, args) => {
                let a = self.args_json(args);
                o(vec![
                    ("k", J::s("adt")),
                    ("p", J::s(self.dname(def.did()))),
                    ("local", J::Bool(def.did().is_local())),
                    ("a", a),
                    ("s", s),
                ])
            }
            ty::Ref(_, inner, m) => {
                let i = self.ty_id(inner);
                o(vec![("k", J::s("ref")), ("m", J::Bool(m.is_mut())), ("t", J::n(i)), ("s", s)])
            }
            ty::RawPtr(inner, m) => {
                let i = self.ty_id(inner);
                o(vec![("k", J::s("ptr")), ("m", J::Bool(m.is_mut())), ("t", J::n(i)), ("s", s)])
            }
            ty::Slice(inner) => {
                let i = self.ty_id(inner);
                o(vec![("k", J::s("slice")), ("t", J::n(i)), ("s", s)])
            }
            ty::Array(inner, len) => {
                let i = self.ty_id(inner);
                let n = match len.try_to_target_usize(self.tcx) {
                    Some(n) => J::n(n),
                    None => J::s(with_no_trimmed_paths!(format!("{}", len))),
                };
                o(vec![("k", J::s("array")), ("t", J::n(i)), ("n", n), ("s", s)])
            }
            ty::Tuple(ts) => {
                let v: Vec<J> = ts.iter().map(|x| J::n(self.ty_id(x))).collect();
                o(vec![("k", J::s("tuple")), ("a", J::Arr(v)), ("s", s)])
            }
            ty::Param(p) => o(vec![("k", J::s("param")), ("n", J::s(p.name.to_string())), ("s", s)]),
            ty::FnDef(d, args) => {
                let a = self.args_json(args);
                o(vec![("k", J::s("fndef")), ("id", J::s(self.did(d))), ("p", J::s(self.dname(d))), ("a", a), ("s", s)])
            }
            ty::Closure(d, args) => {
                let ups: Vec<J> = args.as_closure().upvar_tys().iter().map(|x| J::n(self.ty_id(x))).collect();
                o(vec![("k", J::s("closure")), ("id", J::s(self.did(d))), ("up", J::Arr(ups)), ("s", s)])
            }
            ty::Dynamic(preds, _) => {
                let p = preds.principal_def_id().map(|d| self.dname(d)).unwrap_or_default();
                let autos: Vec<J> = preds.auto_traits().map(|d| J::s(self.dname(d))).collect();
                let a = match preds.principal() {
                    Some(pr) => self.args_json(pr.skip_binder().args),
                    None => J::Arr(vec![]),
                };
                o(vec![("k", J::s("dyn")), ("p", J::s(p)), ("a", a), ("auto", J::Arr(autos)), ("s", s)])
            }
            ty::FnPtr(..) => o(vec![("k", J::s("fnptr")), ("s", s)]),
            ty::Alias(at) => {
                // structure of projections (`<A as AvxNum>::VectorType`): assoc item path + args (Self first)
                let a = self.args_json(at.args);
                let p = match at.kind {
                    ty::AliasTyKind::Projection { def_id } => self.dname(def_id),
                    _ => String::new(),
                };
                o(vec![("k", J::s("alias")), ("p", J::s(p)), ("a", a), ("s", s)])
            }
            _ => o(vec![("k", J::s("other")), ("s", s)]),
        }
    }

    // ------------------------------------------------------------------ MIR
    fn place_j(&mut self, p: &Place<'tcx>) -> J {
        let mut v = vec![J::n(p.local.as_usize())];
        for e in p.projection.iter() {
            v.push(match e {
                ProjectionElem::Deref => J::s("d"),
                ProjectionElem::Field(f, _) => J::Arr(vec![J::s("f"), J::n(f.as_usize())]),
                ProjectionElem::Index(l) => J::Arr(vec![J::s("i"), J::n(l.as_usize())]),
                ProjectionElem::ConstantIndex { offset, min_length, from_end } => {
                    J::Arr(vec![J::s("ci"), J::n(offset), J::n(min_length), J::Bool(from_end)])
                }
                ProjectionElem::Subslice { from, to, from_end } => {
                    J::Arr(vec![J::s("sub"), J::n(from), J::n(to), J::Bool(from_end)])
                }
                ProjectionElem::Downcast(_, v) => J::Arr(vec![J::s("dc"), J::n(v.as_usize())]),
                _ => J::Arr(vec![J::s("x")]),
            });
        }
        J::Arr(v)
    }

    fn const_j(&mut self, c: &MirConst<'tcx>, env: TypingEnv<'tcx>) -> J {
        let tcx = self.tcx;
        let t = c.ty();
        if let ty::FnDef(d, args) = *t.kind() {
            let mut v = vec![
                ("k", J::s("fn")),
                ("id", J::s(self.did(d))),
                ("p", J::s(self.dname(d))),
                ("a", self.args_json(args)),
                ("local", J::Bool(d.is_local())),
                ("krate", J::s(tcx.crate_name(d.krate).to_string())),
            ];
            if let Some(tr) = tcx.trait_of_assoc(d) {
                v.push(("tr", J::s(self.dname(tr))));
            }
            // resolve trait methods to the selected impl where the types allow
            if let Ok(Some(inst)) = ty::Instance::try_resolve(tcx, env, d, args) {
                let rd = inst.def_id();
                if rd != d {
                    v.push(("res", J::s(self.did(rd))));
                    v.push(("resp", J::s(self.dname(rd))));
                    // generic arguments of the selected impl item (in ITS generics' order)
                    if matches!(inst.def, ty::InstanceKind::Item(_)) {
                        v.push(("resa", self.args_json(inst.args)));
                    }
                }
                if let ty::InstanceKind::Virtual(..) = inst.def {
                    v.push(("virt", J::Bool(true)));
                }
            }
            let feats = self.target_features(d);
            if !feats.is_empty() {
                v.push(("tf", J::Arr(feats)));
            }
            if matches!(tcx.def_kind(d), DefKind::Fn | DefKind::AssocFn) {
                if tcx.fn_sig(d).skip_binder().skip_binder().safety().is_unsafe() {
                    v.push(("us", J::Bool(true)));
                }
            }
            return o(v);
        }
        let tid = self.ty_id(t);
        let mut v = vec![("t", J::n(tid))];
        match c {
            MirConst::Unevaluated(u, _) => {
                v.push(("k", J::s("unev")));
                v.push(("p", J::s(self.dname(u.def))));
                v.push(("a", self.args_json(u.args)));
                if let Some(pi) = u.promoted {
                    v.push(("promoted", J::n(pi.as_usize())));
                }
            }
            _ => v.push(("k", J::s("val"))),
        }
        if t.is_integral() || t.is_bool() || t.is_char() {
            if let Some(si) = c.try_eval_scalar_int(tcx, env) {
                let size = si.size();
                if t.is_signed() {
                    v.push(("v", J::n(si.to_int(size))));
                } else {
                    v.push(("v", J::n(si.to_uint(size) as i128)));
                }
            }
        } else {
            // small printable constants (unit structs, enum variants such as FftDirection::Forward)
            let s = with_no_trimmed_paths!(format!("{}", c));
            if s.len() < 200 {
                v.push(("s", J::s(s)));
            }
            // enum constants: try to recover the discriminant
            if let ty::Adt(def, _) = t.kind() {
                if def.is_enum() {
                    if let Some(si) = c.try_eval_scalar_int(tcx, env) {
                        v.push(("v", J::n(si.to_uint(si.size()) as i128)));
                    }
                }
            }
        }
        o(v)
    }

    fn target_features(&self, d: DefId) -> Vec<J> {
        let k = self.tcx.def_kind(d);
        if !matches!(k, DefKind::Fn | DefKind::AssocFn | DefKind::Closure) {
            return vec![];
        }
        self.tcx
            .codegen_fn_attrs(d)
            .target_features
            .iter()
            .map(|f| J::s(f.name.to_string()))
            .collect()
    }

    fn operand_j(&mut self, op: &Operand<'tcx>, env: TypingEnv<'tcx>) -> J {
        match op {
            Operand::Copy(p) => o(vec![("p", self.place_j(p))]),
            Operand::Move(p) => o(vec![("p", self.place_j(p)), ("mv", J::Bool(true))]),
            Operand::Constant(c) => {
                let cj = self.const_j(&c.const_, env);
                o(vec![("c", cj)])
            }
            #[allow(unreachable_patterns)]
            _ => o(vec![("x", J::s(format!("{:?}", op)))]),
        }
    }

    fn rvalue_j(&mut self, rv: &Rvalue<'tcx>, env: TypingEnv<'tcx>) -> J {
        match rv {
            Rvalue::Use(op, ..) => o(vec![("k", J::s("use")), ("o", self.operand_j(op, env))]),
            Rvalue::Repeat(op, n) => o(vec![
                ("k", J::s("repeat")),
                ("o", self.operand_j(op, env)),
                ("n", match n.try_to_target_usize(self.tcx) { Some(n) => J::n(n), None => J::Null }),
            ]),
            Rvalue::Ref(_, bk, p) => o(vec![
                ("k", J::s("ref")),
                ("m", J::Bool(matches!(bk, BorrowKind::Mut { .. }))),
                ("p", self.place_j(p)),
            ]),
            Rvalue::RawPtr(kind, p) => o(vec![
                ("k", J::s("rawptr")),
                ("m", J::Bool(kind.to_mutbl_lossy().is_mut())),
                ("p", self.place_j(p)),
            ]),
            Rvalue::Cast(kind, op, ty) => {
                let kn = match kind {
                    CastKind::PtrToPtr => "PtrToPtr".to_string(),
                    CastKind::Transmute => "Transmute".to_string(),
                    CastKind::IntToInt => "IntToInt".to_string(),
                    CastKind::IntToFloat => "IntToFloat".to_string(),
                    CastKind::FloatToInt => "FloatToInt".to_string(),
                    CastKind::FloatToFloat => "FloatToFloat".to_string(),
                    CastKind::FnPtrToPtr => "FnPtrToPtr".to_string(),
                    CastKind::PointerExposeProvenance => "PointerExposeProvenance".to_string(),
                    CastKind::PointerWithExposedProvenance => "PointerWithExposedProvenance".to_string(),
                    other => format!("{:?}", other),
                };
                let from = op.ty(self.cur_locals(), self.tcx);
                let fid = self.ty_id(from);
                let tid = self.ty_id(*ty);
                o(vec![
                    ("k", J::s("cast")),
                    ("ck", J::s(kn)),
                    ("o", self.operand_j(op, env)),
                    ("from", J::n(fid)),
                    ("to", J::n(tid)),
                ])
            }
            Rvalue::BinaryOp(bop, box (a, b)) => o(vec![
                ("k", J::s("bin")),
                ("op", J::s(format!("{:?}", bop))),
                ("a", self.operand_j(a, env)),
                ("b", self.operand_j(b, env)),
            ]),
            Rvalue::UnaryOp(uop, a) => o(vec![
                ("k", J::s("un")),
                ("op", J::s(format!("{:?}", uop))),
                ("a", self.operand_j(a, env)),
            ]),
            Rvalue::Discriminant(p) => o(vec![("k", J::s("discr")), ("p", self.place_j(p))]),
            Rvalue::Aggregate(box kind, ops) => {
                let mut v = vec![("k", J::s("agg"))];
                match kind {
                    AggregateKind::Adt(d, variant, args, _, _) => {
                        v.push(("ak", J::s("adt")));
                        v.push(("adt", J::s(self.dname(*d))));
                        v.push(("variant", J::n(variant.as_usize())));
                        let def = self.tcx.adt_def(*d);
                        v.push(("vname", J::s(def.variant(*variant).name.to_string())));
                        v.push(("a", self.args_json(args)));
                    }
                    AggregateKind::Tuple => v.push(("ak", J::s("tuple"))),
                    AggregateKind::Array(t) => {
                        v.push(("ak", J::s("array")));
                        v.push(("t", J::n(self.ty_id(*t))));
                    }
                    AggregateKind::Closure(d, _) => {
                        v.push(("ak", J::s("closure")));
                        v.push(("id", J::s(self.did(*d))));
                    }
                    AggregateKind::RawPtr(t, m) => {
                        v.push(("ak", J::s("rawptr")));
                        v.push(("t", J::n(self.ty_id(*t))));
                        v.push(("m", J::Bool(m.is_mut())));
                    }
                    other => {
                        v.push(("ak", J::s("other")));
                        v.push(("s", J::s(format!("{:?}", other))));
                    }
                }
                let opsj: Vec<J> = ops.iter().map(|x| self.operand_j(x, env)).collect();
                v.push(("ops", J::Arr(opsj)));
                o(v)
            }
            Rvalue::CopyForDeref(p) => o(vec![("k", J::s("use")), ("o", o(vec![("p", self.place_j(p))]))]),
            Rvalue::ThreadLocalRef(d) => o(vec![("k", J::s("tls")), ("p", J::s(self.dname(*d)))]),
            other => o(vec![("k", J::s("other")), ("s", J::s(format!("{:?}", other)))]),
        }
    }

    // the local decls of the body being dumped (needed for Operand::ty)
    fn cur_locals(&self) -> &'tcx mir::LocalDecls<'tcx> {
        self.cur.expect("no current body")
    }

    fn block_j(&mut self, bb: &BasicBlockData<'tcx>, env: TypingEnv<'tcx>) -> J {
        let mut stmts = Vec::new();
        for st in &bb.statements {
            match &st.kind {
                StatementKind::Assign(box (p, rv)) => {
                    let mut v = vec![("k", J::s("=")), ("p", self.place_j(p)), ("r", self.rvalue_j(rv, env))];
                    v.extend(self.span_j(st.source_info.span));
                    stmts.push(o(v));
                }
                StatementKind::SetDiscriminant { place, variant_index } => {
                    let mut v = vec![
                        ("k", J::s("setdiscr")),
                        ("p", self.place_j(place)),
                        ("v", J::n(variant_index.as_usize())),
                    ];
                    v.extend(self.span_j(st.source_info.span));
                    stmts.push(o(v));
                }
                StatementKind::Intrinsic(i) => {
                    let mut v = vec![("k", J::s("intrinsic")), ("s", J::s(format!("{:?}", i)))];
                    v.extend(self.span_j(st.source_info.span));
                    stmts.push(o(v));
                }
                _ => {}
            }
        }
        let term = bb.terminator();
        let mut t: Vec<(&'static str, J)> = Vec::new();
        match &term.kind {
            TerminatorKind::Goto { target } => {
                t.push(("k", J::s("goto")));
                t.push(("t", J::n(target.as_usize())));
            }
            TerminatorKind::SwitchInt { discr, targets } => {
                t.push(("k", J::s("switch")));
                t.push(("o", self.operand_j(discr, env)));
                let mut cases = Vec::new();
                for (val, bb) in targets.iter() {
                    cases.push(J::Arr(vec![J::n(val as i128), J::n(bb.as_usize())]));
                }
                t.push(("cases", J::Arr(cases)));
                t.push(("otherwise", J::n(targets.otherwise().as_usize())));
                let dt = discr.ty(self.cur_locals(), self.tcx);
                t.push(("dt", J::n(self.ty_id(dt))));
            }
            TerminatorKind::Return => t.push(("k", J::s("return"))),
            TerminatorKind::Unreachable => t.push(("k", J::s("unreachable"))),
            TerminatorKind::UnwindResume => t.push(("k", J::s("resume"))),
            TerminatorKind::UnwindTerminate(_) => t.push(("k", J::s("abort"))),
            TerminatorKind::Drop { place, target, unwind, .. } => {
                t.push(("k", J::s("drop")));
                t.push(("p", self.place_j(place)));
                t.push(("t", J::n(target.as_usize())));
                if let mir::UnwindAction::Cleanup(c) = unwind {
                    t.push(("u", J::n(c.as_usize())));
                }
            }
            TerminatorKind::Call { func, args, destination, target, unwind, .. } => {
                t.push(("k", J::s("call")));
                t.push(("f", self.operand_j(func, env)));
                let a: Vec<J> = args.iter().map(|x| self.operand_j(&x.node, env)).collect();
                t.push(("args", J::Arr(a)));
                t.push(("d", self.place_j(destination)));
                match target {
                    Some(bb) => t.push(("t", J::n(bb.as_usize()))),
                    None => t.push(("t", J::Null)),
                }
                if let mir::UnwindAction::Cleanup(c) = unwind {
                    t.push(("u", J::n(c.as_usize())));
                }
            }
            TerminatorKind::TailCall { func, args, .. } => {
                t.push(("k", J::s("tailcall")));
                t.push(("f", self.operand_j(func, env)));
                let a: Vec<J> = args.iter().map(|x| self.operand_j(&x.node, env)).collect();
                t.push(("args", J::Arr(a)));
            }
            TerminatorKind::Assert { cond, expected, msg, target, unwind } => {
                t.push(("k", J::s("assert")));
                t.push(("o", self.operand_j(cond, env)));
                t.push(("expected", J::Bool(*expected)));
                let kind = format!("{:?}", msg);
                let short: String = kind.chars().take(60).collect();
                t.push(("msg", J::s(short)));
                t.push(("t", J::n(target.as_usize())));
                if let mir::UnwindAction::Cleanup(c) = unwind {
                    t.push(("u", J::n(c.as_usize())));
                }
            }
            TerminatorKind::InlineAsm { .. } => t.push(("k", J::s("asm"))),
            other => {
                t.push(("k", J::s("other")));
                t.push(("s", J::s(format!("{:?}", other))));
            }
        }
        t.extend(self.span_j(term.source_info.span));
        let mut v = vec![("s", J::Arr(stmts)), ("t", o(t))];
        if bb.is_cleanup {
            v.push(("cleanup", J::Bool(true)));
        }
        o(v)
    }

    /// `[param, trait path]` for every trait predicate on a type parameter of `d` (incl. parents).
    fn bounds_j(&self, d: DefId) -> J {
        let tcx = self.tcx;
        let mut bounds = Vec::new();
        let preds = tcx.predicates_of(d).instantiate_identity(tcx);
        for clause in preds.predicates.iter() {
            let clause = clause.skip_norm_wip();
            if let Some(tp) = clause.as_trait_clause() {
                let tp = tp.skip_binder();
                let self_ty = tp.trait_ref.self_ty();
                let tr = with_no_trimmed_paths!(format!("{}", tp.trait_ref.print_only_trait_path()));
                bounds.push(J::Arr(vec![J::s(self.tys(self_ty)), J::s(tr)]));
            } else if let Some(op) = clause.as_type_outlives_clause() {
                let op = op.skip_binder();
                bounds.push(J::Arr(vec![J::s(self.tys(op.0)), J::s(format!("{:?}", op.1))]));
            }
        }
        J::Arr(bounds)
    }

    fn generics_j(&self, d: DefId) -> J {
        let mut names = Vec::new();
        let g = self.tcx.generics_of(d);
        let mut stack = vec![g];
        let mut cur = g;
        while let Some(p) = cur.parent {
            cur = self.tcx.generics_of(p);
            stack.push(cur);
        }
        for g in stack.iter().rev() {
            for p in &g.own_params {
                let kind = match p.kind {
                    ty::GenericParamDefKind::Lifetime => "lt",
                    ty::GenericParamDefKind::Type { .. } => "ty",
                    ty::GenericParamDefKind::Const { .. } => "const",
                };
                if kind != "lt" {
                    names.push(J::Arr(vec![J::s(p.name.to_string()), J::s(kind)]));
                }
            }
        }
        J::Arr(names)
    }

    fn body_j(&mut self, ld: LocalDefId) -> J {
        let tcx = self.tcx;
        let d = ld.to_def_id();
        let kind = tcx.def_kind(d);
        let body: &'tcx Body<'tcx> = if matches!(kind, DefKind::Const { .. } | DefKind::AssocConst { .. } | DefKind::Static { .. }) {
            tcx.mir_for_ctfe(d)
        } else {
            tcx.optimized_mir(d)
        };
        let env = TypingEnv::post_analysis(tcx, d);
        self.cur = Some(&body.local_decls);
        let mut v: Vec<(&'static str, J)> = vec![
            ("rec", J::s("body")),
            ("id", J::s(self.did(d))),
            ("name", J::s(self.dname(d))),
            ("kind", J::s(format!("{:?}", kind))),
            ("file", J::s(self.file_name(body.span))),
        ];
        v.extend(self.span_j(body.span));
        let parent = tcx.local_parent(ld);
        v.push(("parent", J::s(self.did(parent.to_def_id()))));
        v.push(("parent_kind", J::s(format!("{:?}", tcx.def_kind(parent)))));
        v.push(("generics", self.generics_j(d)));
        // trait bounds on type parameters: [param, trait]
        {
            let mut bounds = Vec::new();
            let mut bounds_full = Vec::new();
            let preds = tcx.predicates_of(d).instantiate_identity(tcx);
            for clause in preds.predicates.iter() {
                let clause = clause.skip_norm_wip();
                if let Some(tp) = clause.as_trait_clause() {
                    let tp = tp.skip_binder();
                    let self_ty = tp.trait_ref.self_ty();
                    if let ty::Param(p) = self_ty.kind() {
                        bounds.push(J::Arr(vec![J::s(p.name.to_string()), J::s(self.dname(tp.trait_ref.def_id))]));
                        let mut targs = Vec::new();
                        for a in tp.trait_ref.args.iter().skip(1) {
                            if let GenericArgKind::Type(t) = a.kind() {
                                targs.push(J::n(self.ty_id(t)));
                            }
                        }
                        bounds_full.push(J::Arr(vec![
                            J::s(p.name.to_string()),
                            J::s(self.dname(tp.trait_ref.def_id)),
                            J::Arr(targs),
                        ]));
                    }
                }
            }
            v.push(("bounds", J::Arr(bounds)));
            v.push(("bounds_full", J::Arr(bounds_full)));
        }
        if matches!(kind, DefKind::Fn | DefKind::AssocFn) {
            let sig = tcx.fn_sig(d).skip_binder().skip_binder();
            v.push(("unsafe", J::Bool(sig.safety().is_unsafe())));
            v.push(("reachable", J::Bool(tcx.effective_visibilities(()).is_reachable(ld))));
            v.push(("pub", J::Bool(tcx.visibility(d).is_public())));
            let ident = tcx.item_name(d).to_string();
            v.push(("ident", J::s(ident)));
        }
        if kind == DefKind::AssocFn {
            let p = tcx.parent(d);
            if let DefKind::Impl { of_trait } = tcx.def_kind(p) {
                v.push(("impl", J::s(self.did(p))));
                let self_ty = tcx.type_of(p).skip_binder();
                v.push(("self_ty", J::n(self.ty_id(self_ty))));
                if of_trait {
                    let tr = tcx.impl_trait_ref(p).skip_binder();
                    v.push(("trait", J::s(self.dname(tr.def_id))));
                }
            } else if let DefKind::Trait = tcx.def_kind(p) {
                v.push(("trait_default", J::s(self.dname(p))));
            }
        }
        let feats = self.target_features(d);
        v.push(("tf", J::Arr(feats)));
        v.push(("argc", J::n(body.arg_count)));
        let locals: Vec<J> = body.local_decls.iter().map(|l| J::n(self.ty_id(l.ty))).collect();
        v.push(("locals", J::Arr(locals)));
        // user variable names
        let mut names = Vec::new();
        for vdi in &body.var_debug_info {
            if let mir::VarDebugInfoContents::Place(p) = &vdi.value {
                names.push(J::Arr(vec![J::s(vdi.name.to_string()), self.place_j(p)]));
            }
        }
        v.push(("names", J::Arr(names)));
        let blocks: Vec<J> = body.basic_blocks.iter().map(|bb| self.block_j(bb, env)).collect();
        v.push(("blocks", J::Arr(blocks)));
        // promoted constants (`&0`, `&mut []`, ...) as miniature bodies
        let mut proms = Vec::new();
        for pb in tcx.promoted_mir(d).iter() {
            self.cur = Some(&pb.local_decls);
            let pl: Vec<J> = pb.local_decls.iter().map(|l| J::n(self.ty_id(l.ty))).collect();
            let pbl: Vec<J> = pb.basic_blocks.iter().map(|bb| self.block_j(bb, env)).collect();
            proms.push(o(vec![("locals", J::Arr(pl)), ("blocks", J::Arr(pbl))]));
        }
        v.push(("promoted", J::Arr(proms)));
        self.cur = None;
        o(v)
    }

    // ------------------------------------------------------------------ items
    fn adt_j(&mut self, ld: LocalDefId) -> J {
        let tcx = self.tcx;
        let d = ld.to_def_id();
        let def = tcx.adt_def(d);
        let ident_args = ty::GenericArgs::identity_for_item(tcx, d);
        let mut variants = Vec::new();
        for v in def.variants() {
            let mut fields = Vec::new();
            for f in &v.fields {
                let fty = f.ty(tcx, ident_args);
                fields.push(o(vec![
                    ("name", J::s(f.name.to_string())),
                    ("ty", J::n(self.ty_id(fty))),
                    ("pub", J::Bool(f.vis.is_public())),
                ]));
            }
            variants.push(o(vec![("name", J::s(v.name.to_string())), ("fields", J::Arr(fields))]));
        }
        let self_ty = tcx.type_of(d).skip_binder();
        let env = TypingEnv::post_analysis(tcx, d);
        let mut seen = FxHashSet::default();
        let cell = self.find_cell(self_ty, env, &mut seen, 0);
        let mut v = vec![
            ("rec", J::s("adt")),
            ("id", J::s(self.did(d))),
            ("name", J::s(self.dname(d))),
            ("kind", J::s(format!("{:?}", tcx.def_kind(d)))),
            ("generics", self.generics_j(d)),
            ("variants", J::Arr(variants)),
            ("reachable", J::Bool(tcx.effective_visibilities(()).is_reachable(ld))),
            ("bounds", self.bounds_j(d)),
            ("file", J::s(self.file_name(tcx.def_span(d)))),
            ("walked", J::n(seen.len())),
        ];
        v.extend(self.span_j(tcx.def_span(d)));
        match cell {
            Some(path) => v.push(("cell_path", J::Arr(path.into_iter().map(J::s).collect()))),
            None => v.push(("cell_path", J::Null)),
        }
        o(v)
    }

    /// Deep walk for interior mutability (R-NOCELL). Returns the chain of types leading to an
    /// `UnsafeCell`, or None. `Arc<X>`/`Weak<X>`: only X (the reference counts are the one
    /// sanctioned atomic); `PhantomData`: skipped; `dyn Trait`: closed by induction (reported
    /// to the rule layer as a leaf); type parameters: leaf (FftNum: Copy excludes UnsafeCell).
    fn find_cell(
        &mut self,
        t: Ty<'tcx>,
        env: TypingEnv<'tcx>,
        seen: &mut FxHashSet<Ty<'tcx>>,
        depth: usize,
    ) -> Option<Vec<String>> {
        if depth > 64 || !seen.insert(t) {
            return None;
        }
        let tcx = self.tcx;
        let here = self.tys(t);
        let sub = |me: &mut Self, x: Ty<'tcx>, seen: &mut FxHashSet<Ty<'tcx>>| -> Option<Vec<String>> {
            me.find_cell(x, env, seen, depth + 1).map(|mut p| {
                p.insert(0, here.clone());
                p
            })
        };
        match *t.kind() {
            ty::Adt(def, args) => {
                if def.is_unsafe_cell() {
                    return Some(vec![here]);
                }
                if def.is_phantom_data() {
                    return None;
                }
                let path = self.dname(def.did());
                for a in args.iter() {
                    if let GenericArgKind::Type(x) = a.kind() {
                        if let Some(p) = sub(self, x, seen) {
                            return Some(p);
                        }
                    }
                }
                if path == "alloc::sync::Arc" || path == "alloc::sync::Weak" || path == "std::sync::Arc" {
                    return None;
                }
                for v in def.variants() {
                    for f in &v.fields {
                        let fty = f.ty(tcx, args);
                        let fty = tcx.try_normalize_erasing_regions(env, ty::Unnormalized::new(fty)).unwrap_or(fty);
                        if let Some(p) = sub(self, fty, seen) {
                            return Some(p);
                        }
                    }
                }
                None
            }
            ty::Ref(_, x, _) | ty::RawPtr(x, _) | ty::Slice(x) | ty::Array(x, _) => sub(self, x, seen),
            ty::Tuple(ts) => {
                for x in ts.iter() {
                    if let Some(p) = sub(self, x, seen) {
                        return Some(p);
                    }
                }
                None
            }
            _ => None,
        }
    }

    fn impl_j(&mut self, ld: LocalDefId, of_trait: bool) -> J {
        let tcx = self.tcx;
        let d = ld.to_def_id();
        let self_ty = tcx.type_of(d).skip_binder();
        let mut v = vec![
            ("rec", J::s("impl")),
            ("id", J::s(self.did(d))),
            ("self_ty", J::n(self.ty_id(self_ty))),
            ("generics", self.generics_j(d)),
            ("bounds", self.bounds_j(d)),
            ("file", J::s(self.file_name(tcx.def_span(d)))),
        ];
        v.extend(self.span_j(tcx.def_span(d)));
        if of_trait {
            let hdr = tcx.impl_trait_header(d);
            let tr = hdr.trait_ref.skip_binder();
            v.push(("trait", J::s(self.dname(tr.def_id))));
            v.push(("trait_args", self.args_json(tr.args)));
            v.push(("unsafe", J::Bool(hdr.safety.is_unsafe())));
            v.push(("negative", J::Bool(matches!(hdr.polarity, ty::ImplPolarity::Negative))));
            v.push(("auto_trait", J::Bool(tcx.trait_is_auto(tr.def_id))));
        }
        let mut items = Vec::new();
        for it in tcx.associated_items(d).in_definition_order() {
            let mut iv = vec![
                ("name", J::s(it.name().to_string())),
                ("id", J::s(self.did(it.def_id))),
                ("kind", J::s(format!("{:?}", tcx.def_kind(it.def_id)))),
                ("pub", J::Bool(tcx.visibility(it.def_id).is_public())),
            ];
            if matches!(tcx.def_kind(it.def_id), DefKind::AssocTy) {
                // the value of an associated type of an impl (`type VectorType = __m256;`)
                let t = tcx.type_of(it.def_id).skip_binder();
                iv.push(("ty", J::n(self.ty_id(t))));
            }
            items.push(o(iv));
        }
        v.push(("items", J::Arr(items)));
        o(v)
    }

    fn trait_j(&mut self, ld: LocalDefId) -> J {
        let tcx = self.tcx;
        let d = ld.to_def_id();
        let mut supers = Vec::new();
        for (clause, _) in tcx.explicit_super_predicates_of(d).skip_binder() {
            supers.push(J::s(with_no_trimmed_paths!(format!("{}", clause))));
        }
        let mut items = Vec::new();
        for it in tcx.associated_items(d).in_definition_order() {
            items.push(o(vec![
                ("name", J::s(it.name().to_string())),
                ("id", J::s(self.did(it.def_id))),
                ("kind", J::s(format!("{:?}", tcx.def_kind(it.def_id)))),
                ("has_default", J::Bool(it.defaultness(tcx).has_value())),
            ]));
        }
        o(vec![
            ("rec", J::s("trait")),
            ("id", J::s(self.did(d))),
            ("name", J::s(self.dname(d))),
            ("supers", J::Arr(supers)),
            ("items", J::Arr(items)),
            ("unsafe", J::Bool(tcx.trait_def(d).safety.is_unsafe())),
            ("reachable", J::Bool(tcx.effective_visibilities(()).is_reachable(ld))),
        ])
    }

    fn static_j(&mut self, ld: LocalDefId) -> J {
        let tcx = self.tcx;
        let d = ld.to_def_id();
        let t = tcx.type_of(d).skip_binder();
        let env = TypingEnv::post_analysis(tcx, d);
        let mutable = matches!(tcx.def_kind(d), DefKind::Static { mutability: rustc_hir::Mutability::Mut, .. });
        let mut v = vec![
            ("rec", J::s("static")),
            ("id", J::s(self.did(d))),
            ("name", J::s(self.dname(d))),
            ("ty", J::n(self.ty_id(t))),
            ("mut", J::Bool(mutable)),
            ("freeze", J::Bool(t.is_freeze(tcx, env))),
            ("thread_local", J::Bool(tcx.is_thread_local_static(d))),
            ("file", J::s(self.file_name(tcx.def_span(d)))),
        ];
        v.extend(self.span_j(tcx.def_span(d)));
        o(v)
    }

    // ------------------------------------------------------------------ public surface
    fn surface(&mut self, module: DefId, prefix: &str, out: &mut Vec<J>, visited: &mut FxHashSet<DefId>) {
        let tcx = self.tcx;
        if !visited.insert(module) {
            return;
        }
        let children: Vec<(String, bool, Res<!>)> = if let Some(l) = module.as_local() {
            tcx.module_children_local(l)
                .iter()
                .map(|c| (c.ident.name.to_string(), c.vis.is_public(), c.res))
                .collect()
        } else {
            return;
        };
        for (name, is_pub, res) in children {
            if !is_pub {
                continue;
            }
            let path = format!("{}::{}", prefix, name);
            match res {
                Res::Def(kind, d) => {
                    let mut v = vec![
                        ("path", J::s(path.clone())),
                        ("kind", J::s(format!("{:?}", kind))),
                        ("def", J::s(self.dname(d))),
                        ("local", J::Bool(d.is_local())),
                    ];
                    match kind {
                        DefKind::Mod => {
                            if d.is_local() {
                                self.surface(d, &path, out, visited);
                            } else {
                                v.push(("extern_crate", J::s(tcx.crate_name(d.krate).to_string())));
                            }
                        }
                        DefKind::Struct | DefKind::Enum | DefKind::Union => {
                            if d.is_local() {
                                let mut members = Vec::new();
                                for &imp in tcx.inherent_impls(d).iter() {
                                    for it in tcx.associated_items(imp).in_definition_order() {
                                        if tcx.visibility(it.def_id).is_public() {
                                            members.push(J::s(it.name().to_string()));
                                        }
                                    }
                                }
                                let def = tcx.adt_def(d);
                                if def.is_enum() {
                                    for var in def.variants() {
                                        members.push(J::s(format!("variant {}", var.name)));
                                    }
                                }
                                for var in def.variants() {
                                    for f in &var.fields {
                                        if f.vis.is_public() {
                                            members.push(J::s(format!("field {}", f.name)));
                                        }
                                    }
                                }
                                v.push(("members", J::Arr(members)));
                            }
                        }
                        DefKind::Trait => {
                            if d.is_local() {
                                let members: Vec<J> = tcx
                                    .associated_items(d)
                                    .in_definition_order()
                                    .map(|it| J::s(it.name().to_string()))
                                    .collect();
                                v.push(("members", J::Arr(members)));
                            }
                        }
                        _ => {}
                    }
                    out.push(o(v));
                }
                _ => {}
            }
        }
    }
}

impl<'tcx> Cx<'tcx> {
    pub fn new(tcx: TyCtxt<'tcx>) -> Self {
        Cx { tcx, types: FxHashMap::default(), type_tab: Vec::new(), cur: None }
    }
}

pub fn dump_crate<'tcx>(tcx: TyCtxt<'tcx>) -> String {
    let mut cx = Cx::new(tcx);
    let mut lines: Vec<String> = Vec::new();

    // header: crate name and cfg(feature = ..) set
    let mut feats: Vec<String> = Vec::new();
    for (name, val) in tcx.sess.config.iter() {
        if name.as_str() == "feature" {
            if let Some(v) = val {
                feats.push(v.to_string());
            }
        }
    }
    feats.sort();
    let is_test = tcx.sess.is_test_crate();
    // implied-feature closure for the x86 features the crate may detect, and the baseline
    let mut implied = Vec::new();
    for f in ["sse", "sse2", "sse3", "ssse3", "sse4.1", "sse4.2", "avx", "avx2", "fma", "f16c", "bmi1", "bmi2", "popcnt", "avx512f"] {
        let v: Vec<J> = tcx
            .implied_target_features(rustc_span::Symbol::intern(f))
            .iter()
            .map(|s| J::s(s.to_string()))
            .collect();
        implied.push(J::Arr(vec![J::s(f), J::Arr(v)]));
    }
    let baseline: Vec<J> = tcx
        .sess
        .target_features
        .iter()
        .map(|s| J::s(s.to_string()))
        .collect();
    lines.push(
        o(vec![
            ("rec", J::s("crate")),
            ("name", J::s(tcx.crate_name(rustc_span::def_id::LOCAL_CRATE).to_string())),
            ("features", J::Arr(feats.into_iter().map(J::s).collect())),
            ("test", J::Bool(is_test)),
            ("implied", J::Arr(implied)),
            ("baseline", J::Arr(baseline)),
            ("debug_assertions", J::Bool(tcx.sess.opts.debug_assertions)),
            ("overflow_checks", J::Bool(tcx.sess.overflow_checks())),
        ])
        .to_string(),
    );

    let defs: Vec<LocalDefId> = tcx.hir_crate_items(()).definitions().collect();
    let mut n_bodies = 0usize;
    for ld in defs {
        let d = ld.to_def_id();
        match tcx.def_kind(d) {
            DefKind::Struct | DefKind::Enum | DefKind::Union => lines.push(cx.adt_j(ld).to_string()),
            DefKind::Impl { of_trait } => lines.push(cx.impl_j(ld, of_trait).to_string()),
            DefKind::Trait => lines.push(cx.trait_j(ld).to_string()),
            DefKind::Static { .. } => lines.push(cx.static_j(ld).to_string()),
            DefKind::Fn | DefKind::AssocFn => {
                if tcx.is_mir_available(d) {
                } else {
                    // trait method declarations without default body
                    lines.push(
                        o(vec![
                            ("rec", J::s("decl")),
                            ("id", J::s(cx.did(d))),
                            ("name", J::s(cx.dname(d))),
                        ])
                        .to_string(),
                    );
                }
            }
            _ => {}
        }
    }

    let mut keys: Vec<LocalDefId> = tcx.mir_keys(()).iter().copied().collect();
    keys.sort_by_key(|k| tcx.def_path_hash(k.to_def_id()));
    keys.sort_by_key(|k| cx.did(k.to_def_id()));
    for ld in keys {
        let d = ld.to_def_id();
        if matches!(tcx.def_kind(d), DefKind::Fn | DefKind::AssocFn | DefKind::Closure) {
            lines.push(cx.body_j(ld).to_string());
            n_bodies += 1;
        } else if matches!(tcx.def_kind(d), DefKind::Const { .. } | DefKind::AssocConst { .. }) {
            // named constants (tables such as `const HAND_BUTTERFLY_LENS: [usize; 13]`): CTFE MIR
            if tcx.hir_maybe_body_owned_by(ld).is_some() && tcx.generics_of(d).count() == 0 {
                let mut j = cx.body_j(ld);
                if let J::Obj(ref mut v) = j {
                    v[0] = ("rec", J::s("constbody"));
                }
                lines.push(j.to_string());
            }
        }
    }

    let mut surf = Vec::new();
    let mut visited = FxHashSet::default();
    let root_name = tcx.crate_name(rustc_span::def_id::LOCAL_CRATE).to_string();
    cx.surface(CRATE_DEF_ID.to_def_id(), &root_name, &mut surf, &mut visited);
    lines.push(o(vec![("rec", J::s("surface")), ("items", J::Arr(surf))]).to_string());

    let tt = std::mem::take(&mut cx.type_tab);
    lines.push(o(vec![("rec", J::s("types")), ("tab", J::Arr(tt))]).to_string());
    lines.push(o(vec![("rec", J::s("end")), ("bodies", J::n(n_bodies))]).to_string());
    let mut s = lines.join("\n");
    s.push('\n');
    s
}
