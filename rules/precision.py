"""Precision mechanisms (C02) and element-type discipline (C14):
R-TWF64, R-BLUEMOD, R-NORECUR, R-FROMF64, R-RINGOPS."""
from .core import Result

INT_TYPES = ("usize", "u8", "u16", "u32", "u64", "u128", "isize", "i8", "i16", "i32", "i64", "i128")
WIDTH = {"u64": 64, "u128": 128, "usize": 64, "i64": 64, "i128": 128, "u32": 32, "i32": 32, "u16": 16, "u8": 8, "isize": 64}


def _walk(e):
    yield e
    if not isinstance(e, tuple):
        return
    if e[0] in ("bin",):
        yield from _walk(e[2])
        yield from _walk(e[3])
    elif e[0] in ("un",):
        yield from _walk(e[2])
    elif e[0] == "cast":
        yield from _walk(e[3])
    elif e[0] == "call":
        for a in e[2]:
            yield from _walk(a)
    elif e[0] == "agg":
        for a in e[2]:
            yield from _walk(a)
    elif e[0] == "field":
        yield from _walk(e[1])
    elif e[0] == "discr":
        yield from _walk(e[1])


def _strip_int_casts(e):
    while e[0] == "cast" and e[1] == "IntToInt":
        e = e[3]
    return e


def _angle_problems(e, need_params):
    """Check an angle expression: f64 arithmetic over constants and int->f64 casts of integer
    expressions. Returns (problems, params_seen)."""
    problems = []
    seen = set()

    def integer_expr(x):
        # integer-side: params, constants, integer arithmetic, width casts
        if x[0] == "param":
            seen.add(x[1])
            return
        if x[0] == "const":
            return
        if x[0] == "cast" and x[1] == "IntToInt":
            return integer_expr(x[3])
        if x[0] == "bin" and x[1] in ("Rem", "Mul", "Add", "Sub", "Div", "BitAnd", "Shr", "Shl", "MulUnchecked", "AddUnchecked", "SubUnchecked"):
            integer_expr(x[2])
            integer_expr(x[3])
            return
        problems.append("integer index is computed by %s" % (x[0] if x[0] != "call" else x[1]))

    def f64_expr(x):
        k = x[0]
        if k == "const":
            if x[2] != "f64":
                problems.append("constant of type %s enters the angle" % x[2])
            return
        if k == "bin":
            if x[1] not in ("Mul", "Div", "Add", "Sub"):
                problems.append("operator %s in the angle" % x[1])
            f64_expr(x[2])
            f64_expr(x[3])
            return
        if k == "un":
            if x[1] != "Neg":
                problems.append("operator %s in the angle" % x[1])
            f64_expr(x[2])
            return
        if k == "cast":
            if x[1] == "IntToFloat" and x[2] == "f64":
                integer_expr(x[3])
                return
            problems.append("cast %s to %s in the angle computation" % (x[1], x[2]))
            return
        if k == "call":
            problems.append("call of %s in the angle computation" % x[1])
            return
        problems.append("angle depends on %s" % (k,))
    f64_expr(e)
    for p in need_params:
        if p not in seen:
            problems.append("parameter %d does not enter the angle through an integer-to-f64 conversion" % p)
    return problems


def r_twf64(F, cfg):
    R = Result("R-TWF64", "twiddles are evaluated in f64 from integer index and length, then converted with from_f64; Inverse = conj")
    b = F.fn("twiddles::compute_twiddle")
    if b is None:
        R.violation("anchor:compute_twiddle", "src/twiddles.rs", "twiddles::compute_twiddle not found")
        return R
    from .inline import inlined
    b = inlined(F, b)        # private helpers (e.g. an extracted `twiddle_angle`) are judged as part of the function
    # no f32 anywhere in the function
    for i, t in enumerate(b.locals):
        ts = F.ts(t)
        if ts == "f32" or "f32" in ts.split("<")[-1].split(">")[0].split(","):
            R.violation("twf64:f32-local", b.where(), "compute_twiddle has a local of type %s" % ts)
    trig = []
    for bi, t in b.calls():
        c = F.callee_of(t)
        if not c:
            continue
        p = c["p"]
        if p.endswith("::sin") or p.endswith("::cos") or p.endswith("::sin_cos"):
            if "impl f64" not in p:
                R.violation("twf64:trig-type", b.where(t), "trigonometric function %s is not the f64 one" % p)
                continue
            trig.append((bi, t, p.rsplit("::", 1)[1]))
            e = b.expr(t["args"][0])
            probs = _angle_problems(e, need_params=(1, 2))
            if probs:
                for pr in probs:
                    R.violation("twf64:angle:%s" % pr[:60], b.where(t), "compute_twiddle: %s" % pr)
            else:
                R.ok({"trig": p, "angle": _show(e)}, nontrivial=True)
    kinds = {k for _, _, k in trig}
    if not ({"sin", "cos"} <= kinds or "sin_cos" in kinds):
        R.violation("twf64:no-trig", b.where(), "compute_twiddle does not evaluate both sin and cos in f64 (found %s)" % sorted(kinds))
    # results reach T::from_f64 and land in (re, im) = (cos, sin)
    conv = {}
    for bi, t in b.calls():
        c = F.callee_of(t)
        if c and c["p"].endswith("FromPrimitive::from_f64"):
            e = b.expr(t["args"][0])
            src = None
            if e[0] == "call" and (e[1].endswith("::cos") or e[1].endswith("::sin")):
                src = e[1].rsplit("::", 1)[1]
            elif e[0] == "field" and e[1][0] == "call" and e[1][1].endswith("::sin_cos"):
                src = "sin" if e[2][-1] == ("f", 0) else "cos"
            if src is None:
                R.violation("twf64:from_f64-arg", b.where(t), "from_f64 is applied to %s, not directly to the f64 sin/cos result" % _show(e))
            else:
                conv[src] = True
                R.ok({"from_f64_of": src}, nontrivial=True)
    if not (conv.get("sin") and conv.get("cos")):
        R.violation("twf64:from_f64-missing", b.where(), "sin/cos results are not converted with T::from_f64")
    for bi, si, n in b.iter_nodes():
        if n["k"] == "=" and n["r"]["k"] == "agg" and n["r"].get("adt") == "num_complex::Complex":
            parts = []
            for o in n["r"]["ops"]:
                e = b.expr(o)
                names = [x[1] for x in _walk(e) if isinstance(x, tuple) and x and x[0] == "call"]
                parts.append("cos" if any(x.endswith("::cos") for x in names) else "sin" if any(x.endswith("::sin") for x in names) else
                             "sincos" if any(x.endswith("::sin_cos") for x in names) else "?")
            if parts[:2] == ["cos", "sin"] or "sincos" in parts:
                R.ok({"Complex": {"re": parts[0], "im": parts[1]}}, nontrivial=True)
            else:
                R.violation("twf64:re-im", b.where(n), "twiddle is assembled as re=%s, im=%s (expected re=cos, im=sin)" % tuple(parts[:2]))
    # match direction: Forward -> identity, Inverse -> conj
    from .tables import direction_selectors, region_of
    sels = [x for x in direction_selectors(F, b) if b.root(x[1]) == ("param", 3)]
    if not sels:
        R.violation("twf64:direction", b.where(), "compute_twiddle does not branch on its direction parameter")
    else:
        tab = {}
        for v, tgt in sels[0][2].items():
            reg = region_of(b, tgt)
            conj = any((F.callee_of(t) or {}).get("p", "").endswith("Complex::<T>::conj") for x in reg for t in [b.blocks[x]["t"]] if t["k"] == "call")
            tab[v] = "conj" if conj else "identity"
        if tab != {"Forward": "identity", "Inverse": "conj"}:
            R.violation("twf64:direction-table", b.where(), "direction table is %s, expected Forward->identity, Inverse->conj" % tab)
        else:
            R.ok({"direction_table": tab}, nontrivial=True)
    R.metric("trig_calls", len(trig))
    # who-may-call: trigonometric/exponential evaluation happens nowhere else in the crate, so every
    # twiddle factor of every algorithm comes out of the function checked above
    TRIG = ("::sin", "::cos", "::sin_cos", "::tan", "::exp", "::exp2", "::powf", "::sinh", "::cosh", "::atan2", "::from_polar", "::cis")
    outside = 0
    orig_id = b.id
    helper_names = set(b.r.get("inlined", []))
    callers = F.callers()
    for ob in F.bodies.values():
        root_ob = F.closure_parent(ob) or ob
        if root_ob.id == orig_id:
            continue
        if root_ob.name in helper_names and all((F.closure_parent(cb) or cb).id == orig_id or (F.closure_parent(cb) or cb).name in helper_names
                                                for (cb, _bi, _t) in callers.get(root_ob.id, [])):
            continue        # a private helper of compute_twiddle, judged above as part of it
        for bi, t in ob.calls():
            c = F.callee_of(t)
            if not c or c["local"]:
                continue
            p = c["p"]
            if any(p.endswith(x) for x in TRIG) and ("impl f32" in p or "impl f64" in p or "Complex" in p or "Float" in p or "Real" in p):
                outside += 1
                R.violation("twf64:trig-outside:%s" % ob.name, ob.where(t), "%s evaluates %s itself: twiddle factors must come from twiddles::compute_twiddle" % (ob.name, p))
    R.ok({"trig_calls_outside_compute_twiddle": outside}, nontrivial=True)
    return R


def _show(e, depth=0):
    if depth > 6:
        return ".."
    k = e[0]
    if k == "param":
        return "p%d" % e[1]
    if k == "const":
        return str(e[1])
    if k == "bin":
        return "(%s %s %s)" % (_show(e[2], depth + 1), {"Mul": "*", "Div": "/", "Add": "+", "Sub": "-", "Rem": "%"}.get(e[1], e[1]), _show(e[3], depth + 1))
    if k == "un":
        return "%s(%s)" % (e[1], _show(e[2], depth + 1))
    if k == "cast":
        return "(%s as %s)" % (_show(e[3], depth + 1), e[2])
    if k == "call":
        return "%s(%s)" % (e[1].split("::")[-1], ", ".join(_show(a, depth + 1) for a in e[2]))
    if k == "field":
        return "%s.%s" % (_show(e[1], depth + 1), ".".join(str(x[1]) for x in e[2]))
    return k


def r_bluemod(F, cfg):
    R = Result("R-BLUEMOD", "the Bluestein chirp index i*i is reduced mod 2n in >=64-bit integer arithmetic before conversion")
    b = F.fn("twiddles::fill_bluesteins_twiddles")
    if b is None:
        R.violation("anchor:fill_bluesteins_twiddles", "src/twiddles.rs", "twiddles::fill_bluesteins_twiddles not found")
        return R
    from .inline import inlined
    b = inlined(F, b)        # private helpers and the closures handed to them are judged as part of the function
    twice = None
    n = 0

    def is_twice_len(e):
        e = _strip_int_casts(e)
        if e[0] == "bin" and e[1] in ("Mul", "Shl", "MulUnchecked"):
            a, c = e[2], e[3]
            for x, y in ((a, c), (c, a)):
                if x[0] == "call" and x[1].endswith("<impl [T]>::len") and x[2] == [("param", 1)]:
                    if y[0] == "const" and ((e[1] != "Shl" and y[1] == 2) or (e[1] == "Shl" and y[1] == 1)):
                        return True
        return False

    def contains_twice_len(e):
        return any(isinstance(x, tuple) and x and is_twice_len(x) for x in _walk(e))
    for bi, t in b.calls():
        c = F.callee_of(t)
        if not (c and c["p"] == "twiddles::compute_twiddle"):
            continue
        n += 1
        idx = _strip_int_casts(b.expr(t["args"][0]))
        ln = b.expr(t["args"][1])
        key = "site%d" % n
        if not is_twice_len(ln):
            R.violation("bluemod:%s:len" % key, b.where(t), "chirp twiddles are computed for length %s, expected 2*destination.len()" % _show(ln))
        # the index must be (i*i) % m
        rem = None
        if idx[0] == "call" and idx[1].endswith("Rem::rem"):
            rem = (idx[2][0], idx[2][1], idx[3][0] if idx[3] else "?")
        elif idx[0] == "bin" and idx[1] == "Rem":
            rem = (idx[2], idx[3], None)
        if rem is None:
            R.violation("bluemod:%s:norem" % key, b.where(t), "chirp index %s is not reduced modulo 2n before the conversion to float" % _show(idx))
            continue
        sq, m, wty = rem
        if not contains_twice_len(m):
            R.violation("bluemod:%s:modulus" % key, b.where(t), "modulus %s is not derived from 2*destination.len()" % _show(m))
        width = None
        if sq[0] == "bin" and sq[1] in ("Mul", "MulUnchecked"):
            x, y = sq[2], sq[3]
            if x == y and x[0] == "cast" and x[1] == "IntToInt":
                width = WIDTH.get(x[2])
            elif x == y and x[0] != "cast":
                width = 64  # usize * usize on x86_64
        if width is None:
            R.violation("bluemod:%s:square" % key, b.where(t), "reduced value %s is not the square of the element index" % _show(sq))
            continue
        if width < 64:
            R.violation("bluemod:%s:width" % key, b.where(t), "i*i is computed in %d-bit arithmetic" % width)
            continue
        if width == 64:
            # needs a dominating edge len < 2^32
            bound = _len_upper_bound(F, b, bi)
            if bound is None or bound > (1 << 32):
                R.violation("bluemod:%s:guard" % key, b.where(t), "64-bit i*i is not guarded by destination.len() < 2^32 (found bound %s): the square can wrap" % bound)
                continue
        R.ok({"site": key, "index": "(i*i as u%d) %% f(2*len)" % width, "guard": "len < 2^32" if width == 64 else "none needed"}, nontrivial=True)
    if n == 0:
        R.violation("bluemod:nosite", b.where(), "fill_bluesteins_twiddles never calls compute_twiddle")
    R.metric("chirp_sites", n)
    return R


def _len_upper_bound(F, b, bi):
    dom = b.dominators().get(bi, set())
    best = None
    for d in dom:
        t = b.blocks[d]["t"]
        if t["k"] != "switch":
            continue
        e = b.expr(t["o"])
        if e[0] != "bin" or e[1] not in ("Lt", "Le"):
            continue
        a, c = e[2], _strip_int_casts(e[3])
        if a[0] == "call" and a[1].endswith("<impl [T]>::len") and a[2] == [("param", 1)] and c[0] == "const" and isinstance(c[1], int):
            true_t = t["otherwise"]
            false_t = [tg for v, tg in t["cases"] if v == 0]
            on_true = (true_t in dom or true_t == bi) and not any(ft in dom or ft == bi for ft in false_t)
            if on_true:
                k = c[1] + (1 if e[1] == "Le" else 0)
                best = k if best is None else min(best, k)
    return best


TWIDDLE_SOURCES = ("twiddles::compute_twiddle", "make_mixedradix_twiddle_chunk", "broadcast_twiddle", "make_twiddles")
TWIDDLE_FILLERS = ("twiddles::fill_bluesteins_twiddles",)
COMPLEX_PRODUCTS = ("mul_complex",)


def _taint_body(F, b, ret_tainted):
    """Flow-insensitive taint of one body. Sources: calls of twiddle generators, calls of local
    functions / closures whose return value is twiddle-derived, closure values whose body returns
    twiddle-derived data (so `(..).map(|y| make_twiddle(y)).collect()` is tainted)."""
    tainted = set()
    nsrc = 0
    for bi, t in b.calls():
        c = F.callee_of(t)
        if not c:
            continue
        p = c["p"]
        if any(p == s or p.endswith("::" + s) or p.endswith(s) for s in TWIDDLE_SOURCES) or c.get("res", c["id"]) in ret_tainted:
            tainted.add(t["d"][0])
            nsrc += 1
        if any(p == s for s in TWIDDLE_FILLERS):
            for a in t["args"][:1]:
                if "p" in a:
                    r = b.root(a)
                    tainted.add(a["p"][0])
                    if r[0] in ("multi", "param"):
                        tainted.add(r[1])
                    else:
                        tainted |= _base_locals(b, a)
            nsrc += 1
    for bi, si, n in b.iter_nodes():
        if n["k"] == "=" and n["r"]["k"] == "agg" and n["r"].get("ak") == "closure" and n["r"]["id"] in ret_tainted:
            tainted.add(n["p"][0])
            nsrc += 1
    if not nsrc:
        return None, 0
    changed = True
    while changed:
        changed = False
        for bi, si, n in b.iter_nodes():
            if n["k"] == "=":
                dst = n["p"][0]
                if dst in tainted:
                    continue
                if any(pl[0] in tainted for pl in _rvalue_places(n["r"])):
                    tainted.add(dst)
                    changed = True
            elif n["k"] == "call":
                if any("p" in a and a["p"][0] in tainted for a in n["args"]):
                    dst = n["d"][0]
                    if dst not in tainted and not _returns_scalar_index(F, b, n):
                        tainted.add(dst)
                        changed = True
                    for a in n["args"]:
                        if "p" in a and a["p"][0] not in tainted:
                            t0 = b.ty(a["p"][0])
                            if t0["k"] == "ref" and t0["m"]:
                                for bl in _base_locals(b, a):
                                    if bl not in tainted:
                                        tainted.add(bl)
                                        changed = True
                                tainted.add(a["p"][0])
                                changed = True
    return tainted, nsrc


def r_norecur(F, cfg):
    """No twiddle is produced from a product of twiddles (tables by recurrence accumulate O(eps*n))."""
    R = Result("R-NORECUR", "no value derived from a twiddle source is multiplied by another such value (complex x complex) at construction")
    bodies = sorted(F.bodies.values(), key=lambda x: x.id)
    ret_tainted = set()
    taints = {}
    for _round in range(5):
        grew = False
        for b in bodies:
            tainted, nsrc = _taint_body(F, b, ret_tainted)
            if tainted is None:
                continue
            taints[b.id] = (tainted, nsrc)
            if 0 in tainted and b.id not in ret_tainted:
                # only complex-valued / vector-valued results matter, not lengths
                if not (b.ty(0)["k"] == "prim" and b.tys(0) in INT_TYPES + ("bool",)):
                    ret_tainted.add(b.id)
                    grew = True
        if not grew:
            break
    nsrc = sum(v[1] for v in taints.values())
    nfn = len(taints)
    nprod = 0
    for b in bodies:
        if b.id not in taints:
            continue
        tainted = taints[b.id][0]
        # closures: captured twiddle-derived values of the parent are tainted as well
        for bi, t in b.calls():
            c = F.callee_of(t)
            if not c:
                continue
            p = c["p"]
            is_prod = False
            if p.endswith("ops::Mul::mul") or p.endswith("ops::MulAssign::mul_assign"):
                targs = [F.ts(a) for a in c["a"] if isinstance(a, int)]
                if len(targs) >= 2 and all("Complex<" in x for x in targs[:2]):
                    is_prod = True
            if any(p.endswith(s) for s in COMPLEX_PRODUCTS):
                is_prod = True
            if not is_prod or len(t["args"]) < 2:
                continue
            nprod += 1
            ta = ["p" in a and a["p"][0] in tainted for a in t["args"][:2]]
            if all(ta):
                R.violation("norecur:%s" % b.name, b.where(t), "%s multiplies two twiddle-derived complex values (%s): a table built by recurrence" % (b.name, p))
            else:
                R.ok({"fn": b.name, "product": p, "twiddle_operands": sum(ta)}, nontrivial=True, sample_cap=8)
        R.ok(None)
    R.metric("twiddle_source_calls", nsrc)
    R.metric("functions_with_sources", nfn)
    R.metric("complex_products_examined", nprod)
    R.metric("twiddle_returning_functions", len(ret_tainted))
    return R


def _rvalue_places(r):
    out = []
    for k in ("o", "a", "b"):
        if k in r and "p" in r[k]:
            out.append(r[k]["p"])
    if "p" in r:
        out.append(r["p"])
    for o in r.get("ops", []):
        if "p" in o:
            out.append(o["p"])
    return out


def _base_locals(b, operand):
    """Locals a reference operand may point into (follow &mut *x / &mut x chains)."""
    out = set()
    cur = operand
    for _ in range(10):
        if "p" not in cur:
            break
        loc = cur["p"][0]
        out.add(loc)
        ds = b.whole_defs(loc)
        if len(ds) != 1 or ds[0][1] == "t":
            if len(ds) == 1 and ds[0][1] == "t":
                # result of deref_mut(&mut x) / index_mut / as_mut_slice ... : follow its first argument
                t = ds[0][2]
                if t["args"]:
                    cur = t["args"][0]
                    continue
            break
        r = ds[0][2]["r"]
        if r["k"] in ("ref", "rawptr"):
            cur = {"p": [r["p"][0]]}
        elif r["k"] in ("use", "cast"):
            cur = r["o"]
        else:
            break
    return out


def _is_index_like(p):
    return p.endswith("::len") or p.endswith("::is_empty")


def _returns_scalar_index(F, b, term):
    t = b.ty(term["d"][0])
    return t["k"] == "prim" and t["s"] in INT_TYPES + ("bool",)


ALLOWED_FROMPRIM = ("from_f64", "from_usize")


def r_fromf64(F, cfg):
    R = Result("R-FROMF64", "constants enter the element type only through FromPrimitive::from_f64 / from_usize")
    n = 0
    for b in F.bodies.values():
        for bi, t in b.calls():
            c = F.callee_of(t)
            if not c:
                continue
            p = c["p"]
            if c.get("tr", "").endswith("FromPrimitive") or "FromPrimitive::" in p or c.get("tr", "").endswith("NumCast") or "NumCast::" in p:
                n += 1
                m = p.rsplit("::", 1)[1]
                if m in ALLOWED_FROMPRIM and "FromPrimitive" in p:
                    if m == "from_f64" and (F.closure_parent(b) or b).name != "twiddles::compute_twiddle":
                        # outside the twiddle generator a from_f64 argument must be a fixed constant: a value
                        # computed in f64 from run-time quantities (e.g. 1.0 / len as f64) bypasses the
                        # element type's own arithmetic and is wrong for exact / extended-precision types
                        e = b.expr(t["args"][0])
                        dyn = [x for x in _walk(e) if isinstance(x, tuple) and x and x[0] in ("param", "multi", "field", "?")]
                        dyn += [x for x in _walk(e) if isinstance(x, tuple) and x and x[0] == "call" and not x[1].startswith("std::f64::")]
                        if dyn:
                            R.violation("fromprim:%s:from_f64-of-runtime-value" % b.name, b.where(t),
                                        "%s converts a run-time f64 expression %s with from_f64: only fixed constants (and twiddles in compute_twiddle) may enter that way; use the element type's own arithmetic on from_usize values" % (b.name, _show(e)))
                            continue
                        R.ok({"fn": b.name, "conversion": "from_f64 of the constant " + _show(e)}, nontrivial=True, sample_cap=6)
                        continue
                    R.ok({"fn": b.name, "conversion": m}, nontrivial=False, sample_cap=6)
                else:
                    R.violation("fromprim:%s:%s" % (b.name, m), b.where(t), "%s converts a constant with %s (only from_f64/from_usize are part of the contract)" % (b.name, p))
    R.metric("conversions", n)
    return R


def r_nowiden(F, cfg):
    """No f32 value is widened to f64 anywhere in the crate (zero-count rule with a positive control).

    Every f64 constant and twiddle of the library is computed in f64; an `x as f64` applied to an f32 value (for example
    `std::f32::consts::FRAC_1_SQRT_2 as f64` pasted into an f64 kernel) yields an f64 that is exact to 24 bits only --
    a relative error of 1e-8, eight orders of magnitude above the bound -- and nothing downstream can tell."""
    R = Result("R-NOWIDEN", "no float-to-float cast from f32 to f64 in non-test crate code")
    n = 0
    for b in F.bodies.values():
        for bi, si, node in b.iter_nodes():
            if node["k"] == "=" and node["r"]["k"] == "cast" and node["r"]["ck"] == "FloatToFloat":
                n += 1
                to = F.ts(node["r"]["to"])
                o = node["r"]["o"]
                frm = None
                if "p" in o and len(o["p"]) == 1:
                    frm = b.tys(o["p"][0])
                elif "c" in o and "t" in o["c"]:
                    frm = F.ts(o["c"]["t"])
                if to == "f64" and frm in ("f32", None):
                    R.violation("nowiden:%s" % b.name, b.where(node), "%s widens an %s value to f64: the result carries only f32 precision" % (b.name, frm or "unknown-width float"))
                else:
                    R.ok({"fn": b.name, "cast": "%s -> %s" % (frm, to)}, nontrivial=False, sample_cap=4)
    R.metric("float_to_float_casts", n)
    R.instances += 1
    return R


REDUCERS = ("Iterator::sum", "Iterator::product", "Iterator::fold", "Iterator::reduce", "Sum::sum", "Product::product",
            "Iterator::try_fold", "DoubleEndedIterator::rfold")


def r_nosum(F, cfg):
    """No linear reduction of element-type values with an iterator reducer outside the naive Dft.

    A left-to-right sum of n floating-point terms has an error bound that grows like eps*n; the algorithms
    obtain every output as a fixed-size butterfly sum or from an inner FFT (a log-depth summation tree).
    An `iter().sum()` / `fold` / `reduce` over a run-time-length buffer of T / Complex<T> (for example taking the
    DC bin as the plain sum of the inputs) replaces that tree by a chain. Only iterator reducers are covered;
    a hand-written accumulation loop is not detected (stated in the evidence)."""
    R = Result("R-NOSUM", "no iterator sum/product/fold/reduce producing an element-type value outside algorithm::dft")
    n = 0
    for b in F.bodies.values():
        root = F.closure_parent(b) or b
        for bi, t in b.calls():
            c = F.callee_of(t)
            if not c or not any(c["p"].endswith(r) for r in REDUCERS):
                continue
            n += 1
            # the type produced: the callee's return place
            out_t = b.tys(t["d"][0]) if len(t["d"]) == 1 else "?"
            tys = [F.ts(a) for a in c.get("a", []) if isinstance(a, int)]
            elemish = lambda x: ("Complex<" in x) or x in ("f32", "f64", "T", "A", "S")
            if not (elemish(out_t) or any(elemish(x) for x in tys[1:])):
                R.ok({"fn": b.name, "reducer": c["p"].rsplit("::", 1)[-1], "produces": out_t}, nontrivial=False, sample_cap=6)
                continue
            if root.name.startswith("algorithm::dft::"):
                R.ok({"fn": b.name, "reducer": c["p"].rsplit("::", 1)[-1], "allowed": "naive Dft (length <= 1 in every plan, R-DFTBOUND)"}, nontrivial=True)
                continue
            R.violation("nosum:%s:%s" % (b.name, c["p"].rsplit("::", 1)[-1]), b.where(t),
                        "%s reduces element-type values with %s (produces %s): a linear summation chain whose rounding error grows like eps*n"
                        % (b.name, c["p"].rsplit("::", 1)[-1], out_t))
    R.metric("reducer_calls", n)
    R.instances += 1
    return R


# trait methods the portable generic code may invoke on the element type T / Complex<T>
RING_TRAITS = {
    "std::ops::Add": "ring", "std::ops::Sub": "ring", "std::ops::Mul": "ring", "std::ops::Neg": "ring",
    "std::ops::AddAssign": "ring", "std::ops::SubAssign": "ring", "std::ops::MulAssign": "ring",
    "std::ops::Div": "field (1/m scale of Rader/Bluestein)",
    "num_traits::Zero": "ring constant", "num_traits::One": "ring constant",
    "num_traits::FromPrimitive": "constants (checked by R-FROMF64)",
    "std::clone::Clone": "copy", "std::marker::Copy": "copy", "std::fmt::Debug": "diagnostics", "std::cmp::PartialEq": "diagnostics",
}


def r_ringops(F, cfg):
    """Which trait methods are invoked with Self = the generic element type (T or Complex<T>)."""
    R = Result("R-RINGOPS", "generic code uses only ring operations (+ Div for 1/m) and from_f64/from_usize constants on the element type")
    seen = {}
    n = 0
    for b in F.bodies.values():
        for bi, t in b.calls():
            c = F.callee_of(t)
            if not c or "tr" not in c or not c["a"] or not isinstance(c["a"][0], int):
                continue
            st = F.types[c["a"][0]]
            elem = None
            if st["k"] == "param":
                elem = st
            elif st["k"] == "adt" and st["p"] == "num_complex::Complex" and st["a"] and isinstance(st["a"][0], int) and F.types[st["a"][0]]["k"] == "param":
                elem = F.types[st["a"][0]]
            if elem is None or elem.get("n") in ("Self",) or elem["n"].startswith("impl "):
                continue
            # element types are the type parameters bounded by FftNum
            root_fn = F.closure_parent(b) or b
            if not any(bn[0] == elem["n"] and bn[1].endswith("FftNum") for bn in root_fn.r.get("bounds", [])):
                continue
            # only type parameters bounded by FftNum are element types: approximate by name convention-free test:
            # the trait must be an arithmetic / numeric / conversion trait to be relevant at all
            tr = c["tr"]
            if not (tr.startswith("std::ops::") or tr.startswith("num_traits::") or tr.startswith("std::cmp::") or tr.startswith("num_complex::")):
                continue
            if tr in ("std::ops::Fn", "std::ops::FnMut", "std::ops::FnOnce", "std::ops::Deref", "std::ops::DerefMut", "std::ops::Index", "std::ops::IndexMut"):
                continue
            n += 1
            if tr in RING_TRAITS:
                seen.setdefault(tr, 0)
                seen[tr] += 1
            else:
                R.violation("ringops:%s:%s" % (b.name, c["p"]), b.where(t), "%s applies %s to the generic element type (outside ring ops / from_f64 constants)" % (b.name, c["p"]))
    for tr, k in sorted(seen.items()):
        R.ok({"trait": tr, "uses": k, "class": RING_TRAITS[tr]}, nontrivial=True, sample_cap=20)
    R.metric("element_trait_calls", n)
    # values of a generic element type are never manufactured from raw bytes: `ptr::write_bytes`, `mem::zeroed`,
    # `MaybeUninit::zeroed` produce the all-zero bit pattern, which is the additive zero only for types that happen to be
    # laid out that way (f32/f64), not for an arbitrary FftNum
    RAW = ("ptr::write_bytes", "::write_bytes", "mem::zeroed", "MaybeUninit::<T>::zeroed", "intrinsics::write_bytes")
    nraw = 0
    for b in F.bodies.values():
        for bi, t in b.calls():
            c = F.callee_of(t)
            if not c or c.get("local", True):
                continue
            if not any(c["p"].endswith(x) for x in RAW):
                continue
            tys = [F.types[a] for a in c.get("a", []) if isinstance(a, int)]

            def generic_elem(ty, depth=0):
                if depth > 4:
                    return False
                if ty["k"] == "param":
                    return True
                if ty["k"] == "adt":
                    return any(isinstance(a, int) and generic_elem(F.types[a], depth + 1) for a in ty.get("a", []))
                if ty["k"] in ("array", "slice", "ref", "ptr"):
                    return generic_elem(F.types[ty["t"]], depth + 1)
                return False
            nraw += 1
            if any(generic_elem(ty) for ty in tys):
                R.violation("ringops:rawbytes:%s:%s" % (b.name, c["p"].rsplit("::", 1)[-1]), b.where(t),
                            "%s builds values of a generic element type from raw bytes with %s: the all-zero bit pattern is the ring's zero only for float-like layouts"
                            % (b.name, c["p"]))
            else:
                R.ok({"fn": b.name, "raw_byte_constructor": c["p"], "on": [x["s"] for x in tys]}, nontrivial=False, sample_cap=4)
    R.metric("raw_byte_constructor_calls", nraw)
    return R
