"""R-DIRFLOW (C04, C06, C10): direction provenance.

Every value of type FftDirection that a function passes on (call argument) or stores (field of an
aggregate) is classified by its source:
  P(i)   the function's own FftDirection parameter i
  C(V)   the constant FftDirection::V
  D(r)   Direction::fft_direction(r) for a receiver r (a parameter, or a field path of self)
  S(p)   a field of self read directly (self.direction)
  O(s)   FftDirection::opposite_direction(s)
Rules:
  pass-through   a function with a direction parameter uses only that parameter
  wrappers       plan_fft_forward / plan_fft_inverse pass the constant matching their name
  inner-derived  a function without a direction parameter that builds a transform from inner
                 transforms takes every direction from fft_direction() of ONE inner transform, and
                 every other inner transform's direction is asserted equal to it
  kernels        code running on behalf of an existing transform passes only self's direction
                 to constructors of sub-transforms (constants are allowed for rotation helpers)
  read-back      every `Direction::fft_direction` impl returns a field of self or a sub-transform's
                 direction, never a constant
Exceptions (named, with reason): see EXCEPTIONS.
"""
from .core import Result
from .tables import region_panics

DIR_TY = "FftDirection"

# (function name suffix) -> (allowed extra source kind, reason)
EXCEPTIONS = {
    "BluesteinsAlgorithm::<T>::new": ("O-once", "the convolution kernel is the conjugate chirp: first fill_bluesteins_twiddles gets the opposite direction"),
    "BluesteinsAvx::<A, T>::new_with_avx": ("O-once", "same, AVX twin"),
    "Butterfly3::<T>::direction_of": ("O-all", "direction_of builds the conjugate butterfly: conj twiddle together with the opposite direction"),
    "FftDirection::opposite_direction": ("any", "definition of opposite_direction"),
}


def _is_dir_operand(F, b, o):
    if "p" in o:
        p = o["p"]
        if len(p) == 1:
            return b.tys(p[0]) == DIR_TY
        return None  # resolved by the caller through field types when needed
    c = o.get("c")
    return bool(c and "t" in c and F.ts(c["t"]) == DIR_TY)


def _recv_root(F, b, operand, depth=0):
    """Receiver of a trait call, looking through Deref::deref / Clone::clone / reborrows."""
    cur = operand
    for _ in range(12):
        r = b.root(cur)
        if r[0] == "call":
            c = F.callee_of(r[2])
            if c and (c["p"].endswith("Deref::deref") or c["p"].endswith("Clone::clone")) and r[2]["args"]:
                cur = r[2]["args"][0]
                continue
            return ("call", c["p"] if c else "?")
        if r[0] == "field":
            base = r[1]
            if base[0] == "param":
                return ("field", base[1], r[2])
            return ("field?",)
        return r[:2] if r[0] in ("param", "multi") else (r[0],)
    return ("?",)


def source_of(F, b, operand, depth=0):
    """Classify the source of a direction-typed operand. Closure captures are resolved in the
    enclosing function (the source is then prefixed with the nesting but compared structurally)."""
    if depth > 8:
        return ("?",)
    r = b.root(operand)
    if r[0] == "param":
        if b.kind == "Closure" and r[1] == 1:
            return ("?",)
        return ("P", r[1])
    if r[0] == "agg":
        rv = r[3]["r"]
        if rv.get("ak") == "adt" and rv.get("adt") == DIR_TY:
            return ("C", rv["vname"])
        return ("?",)
    if r[0] == "const":
        s = r[1].get("s", "")
        for v in ("Forward", "Inverse"):
            if s.endswith(v):
                return ("C", v)
        return ("?",)
    if r[0] == "call":
        c = F.callee_of(r[2])
        if c and c["p"] == "Direction::fft_direction":
            return ("D", _recv_root(F, b, r[2]["args"][0]))
        if c and c["p"].endswith("FftDirection::opposite_direction"):
            return ("O", source_of(F, b, r[2]["args"][0], depth + 1))
        return ("?", c["p"] if c else "?")
    if r[0] == "field":
        base, path = r[1], r[2]
        if base[0] == "param":
            if b.kind == "Closure" and base[1] == 1:
                # captured variable k of the closure: resolve in the parent
                k = path[0][1] if path and path[0][0] == "f" else None
                parent = F.bodies.get(b.r["parent"])
                if parent is not None and k is not None:
                    for bi, si, n in parent.iter_nodes():
                        if n["k"] == "=" and n["r"]["k"] == "agg" and n["r"].get("ak") == "closure" and n["r"]["id"] == b.id:
                            ops = n["r"]["ops"]
                            if k < len(ops):
                                sub = ops[k]
                                if len(path) > 1 and "p" in sub:
                                    sub = {"p": sub["p"] + [list(e) if isinstance(e, tuple) else e for e in path[1:]]}
                                src = source_of(F, parent, sub, depth + 1)
                                return ("^",) + src if src[0] == "P" else src
                return ("?",)
            if base[1] == 1:
                return ("S", path)
            return ("F", base[1], path)
        return ("?",)
    if r[0] == "multi":
        # a local assigned in several places (match arms): all must agree
        srcs = set()
        for (bi, si, n) in b.whole_defs(r[1]):
            if si == "t":
                srcs.add(source_of(F, b, {"p": [r[1]]}, depth + 99))
            elif n["r"]["k"] == "use":
                srcs.add(source_of(F, b, n["r"]["o"], depth + 1))
            elif n["r"]["k"] == "agg" and n["r"].get("adt") == DIR_TY:
                srcs.add(("C", n["r"]["vname"]))
            else:
                srcs.add(("?",))
        if len(srcs) == 1:
            return next(iter(srcs))
        return ("M", tuple(sorted(srcs)))
    return ("?",)


def _fft_adts(F):
    s = set()
    for i in F.trait_impls("Fft"):
        p = F.impl_self_adt(i)
        if p:
            s.add(p)
    return s


def _callee_builds_fft(F, c, fft_adts):
    """Is the callee an associated `new*` of a transform type (or returns one)?"""
    if not c["local"]:
        return False
    cb = F.bodies.get(c["id"])
    if cb is None or "self_ty" not in cb.r:
        return False
    st = F.types[cb.r["self_ty"]]
    return st["k"] == "adt" and st["p"] in fft_adts and cb.r.get("ident", "").startswith("new")


def collect_uses(F, b, fft_adts):
    """All direction uses of a body: (kind, node, source, detail)"""
    uses = []
    for bi, si, n in b.iter_nodes():
        if n["k"] in ("call", "tailcall"):
            c = F.callee_of(n)
            for k, a in enumerate(n["args"]):
                if _is_dir_operand(F, b, a):
                    uses.append(("arg", n, source_of(F, b, a), c))
                elif "p" in a and len(a["p"]) > 1:
                    # field operand: decide by the field's type when it is a direct struct field of a local ADT
                    pass
        elif n["k"] == "=" and n["r"]["k"] == "agg" and n["r"].get("ak") == "adt" and n["r"]["adt"] != DIR_TY:
            adt = F.adts_by_name.get(n["r"]["adt"])
            if adt is None:
                continue
            vi = n["r"]["variant"]
            fields = adt["variants"][vi]["fields"]
            for k, o in enumerate(n["r"]["ops"]):
                if k < len(fields) and F.ts(fields[k]["ty"]) == DIR_TY:
                    uses.append(("field", n, source_of(F, b, o), {"adt": n["r"]["adt"], "field": fields[k]["name"]}))
    return uses


def _asserted_pairs(F, b):
    """Pairs of D-receivers compared for equality with a panic on mismatch."""
    pairs = []
    for bi, t in b.calls():
        c = F.callee_of(t)
        if not c or not (c["p"].endswith("PartialEq::eq") or c["p"].endswith("PartialEq::ne")):
            continue
        if not (c["a"] and isinstance(c["a"][0], int) and F.ts(c["a"][0]) == DIR_TY):
            continue
        s1 = source_of(F, b, t["args"][0])
        s2 = source_of(F, b, t["args"][1])
        # the result must guard a diverging branch
        guarded = False
        nxt = t.get("t")
        if nxt is not None:
            tt = b.blocks[nxt]["t"]
            # walk a few straight-line blocks to the switch
            hops = 0
            while tt["k"] == "goto" and hops < 4:
                nxt = tt["t"]
                tt = b.blocks[nxt]["t"]
                hops += 1
            if tt["k"] == "switch":
                for s in b.succ(nxt):
                    if region_panics(F, b, s):
                        guarded = True
        if guarded:
            pairs.append((s1, s2))
    return pairs


def r_dirflow(F, cfg):
    R = Result("R-DIRFLOW", "the requested direction is the direction of every constructed part; fft_direction() reads it back")
    fft_adts = _fft_adts(F)
    n_fn = 0
    n_uses = 0
    n_pass = n_wrap = n_inner = n_kernel = 0
    for b in sorted(F.bodies.values(), key=lambda x: x.id):
        uses = collect_uses(F, b, fft_adts)
        if not uses:
            continue
        n_fn += 1
        n_uses += len(uses)
        root_fn = F.closure_parent(b) or b
        exc = None
        for suffix, e in EXCEPTIONS.items():
            if root_fn.name.endswith(suffix):
                exc = e
        if exc and exc[0] == "any":
            R.ok({"fn": b.name, "exception": exc[1]}, nontrivial=True)
            continue
        dir_params = [i for i in range(1, root_fn.argc + 1) if root_fn.tys(i) == DIR_TY]
        ident = root_fn.r.get("ident", "")
        o_seen = 0
        bad = []
        srcs = []
        for kind, node, src, detail in uses:
            eff = src
            if eff and eff[0] == "^":
                eff = eff[1:]
            if eff[0] == "O":
                o_seen += 1
                if exc and exc[0] in ("O-once", "O-all"):
                    eff = eff[1]
                    if eff and eff[0] == "^":
                        eff = eff[1:]
                else:
                    bad.append((node, "uses opposite_direction() of %s" % (_fmt(eff[1]),)))
                    continue
            srcs.append((kind, node, eff, detail))
        if exc and exc[0] == "O-once" and o_seen > 1:
            bad.append((uses[0][1], "opposite_direction() is used %d times; exactly one use (the Bluestein kernel chirp) is expected" % o_seen))
        # --- classify the function
        if dir_params:
            n_pass += 1
            for kind, node, eff, detail in srcs:
                if eff[0] == "P" and eff[1] in dir_params and len(dir_params) == 1:
                    continue
                if eff[0] == "P" and eff[1] in dir_params:
                    continue
                # direction_of: the source is the argument transform's own field
                if exc and exc[0] == "O-all" and eff[0] in ("F", "S"):
                    continue
                bad.append((node, "%s is %s, not the function's own direction parameter" % (_what(kind, detail), _fmt(eff))))
        elif ident.endswith("_forward") or ident.endswith("_inverse"):
            pass    # checked below for every function of that name, whether or not it mentions a direction itself
        else:
            # no direction parameter
            dsrc = sorted({eff for kind, node, eff, detail in srcs if eff[0] == "D"}, key=str)
            others = [(kind, node, eff, detail) for kind, node, eff, detail in srcs if eff[0] != "D"]
            inner_params = [i for i in range(1, root_fn.argc + 1) if "dyn Fft<" in root_fn.tys(i)]
            if inner_params and not (root_fn.argc >= 1 and _is_self_transform(F, root_fn, fft_adts)):
                n_inner += 1
                # every direction comes from fft_direction() of an inner transform parameter
                for kind, node, eff, detail in others:
                    bad.append((node, "%s is %s, expected fft_direction() of an inner transform" % (_what(kind, detail), _fmt(eff))))
                recvs = sorted({d[1] for d in dsrc}, key=str)
                prim = recvs[0] if recvs else None
                pairs = _asserted_pairs(F, b) if b is root_fn else _asserted_pairs(F, root_fn)
                for rv in recvs[1:]:
                    if not _paired(pairs, prim, rv):
                        bad.append((uses[0][1], "directions are taken from two inner transforms (%s and %s) without asserting that they agree" % (_fmt(("D", prim)), _fmt(("D", rv)))))
                # every inner transform parameter is either the source or asserted equal to it
                if b is root_fn and prim is not None:
                    for ip in inner_params:
                        if ("param", ip) == prim or any(rv == ("param", ip) for rv in recvs):
                            continue
                        if not any(_mentions(pr, ("param", ip)) for pr in pairs):
                            bad.append((uses[0][1], "inner transform parameter %d (%s) is combined without checking its direction against the one recorded" % (ip, root_fn.var_name(ip))))
            else:
                n_kernel += 1
                for kind, node, eff, detail in srcs:
                    if eff[0] in ("S",):
                        continue
                    if eff[0] == "D" and eff[1][0] == "field" and eff[1][1] == 1:
                        continue
                    if eff[0] == "D" and eff[1] == ("param", 1):
                        continue
                    if eff[0] == "C" and kind == "arg" and detail and not _callee_builds_fft(F, detail, fft_adts):
                        continue  # rotation helpers etc. (bit masks, out of scope)
                    bad.append((node, "%s is %s; code running for an existing transform must use self's direction" % (_what(kind, detail), _fmt(eff))))
        if bad:
            for node, msg in bad:
                R.violation("dirflow:%s:%s" % (b.name, msg[:90]), b.where(node), "%s: %s" % (b.name, msg))
        else:
            R.ok({"fn": b.name, "direction_uses": len(uses), "sources": sorted({_fmt(e) for _, _, e, _ in srcs})} if n_fn % 25 == 1 else None, nontrivial=True)
    # --- forward/inverse wrappers: `*_forward` plans Forward only, `*_inverse` plans Inverse only -- whether the
    #     direction is passed as a constant or delegated to another wrapper (whose own name is its contract)
    for b in sorted(F.bodies.values(), key=lambda x: x.id):
        ident = b.r.get("ident", "")
        if b.kind == "Closure" or not (ident.endswith("_forward") or ident.endswith("_inverse")):
            continue
        n_wrap += 1
        want = "Forward" if ident.endswith("_forward") else "Inverse"
        wsuffix = "_forward" if want == "Forward" else "_inverse"
        bad = []
        seen = 0
        for body in [b] + [cb for cb in F.bodies.values() if cb.kind == "Closure" and F.closure_parent(cb) is b]:
            for bi, t in body.calls():
                c = F.callee_of(t)
                for a in t["args"]:
                    if _is_dir_operand(F, body, a):
                        seen += 1
                        eff = source_of(F, body, a)
                        if eff != ("C", want):
                            bad.append((t, "%s passes %s, expected the constant %s" % (ident, _fmt(eff), want)))
                if c:
                    cname = c["p"].rsplit("::", 1)[-1]
                    if cname.endswith("_forward") or cname.endswith("_inverse"):
                        seen += 1
                        if not cname.endswith(wsuffix):
                            bad.append((t, "%s delegates to %s" % (ident, cname)))
        if bad:
            for node, msg in bad:
                R.violation("dirflow:%s:%s" % (b.name, msg[:90]), b.where(node), "%s: %s" % (b.name, msg))
        else:
            R.ok({"wrapper": b.name, "plans": want, "direction_sites": seen} if n_wrap % 3 == 1 else None, nontrivial=True)
    # --- read-back
    n_rb = 0
    for i in F.trait_impls("Direction"):
        b = F.body_of_impl_item(i, "fft_direction")
        if b is None:
            continue
        n_rb += 1
        src = source_of(F, b, {"p": [0]})
        ok = src[0] == "S" or (src[0] == "D" and src[1][0] == "field" and src[1][1] == 1)
        if not ok and src[0] == "?":
            # closure form of the boilerplate: `(|this| this.direction)(self)`
            ok = _readback_via_closure(F, b)
        if ok:
            R.ok({"impl": b.name, "reads": _fmt(src)} if n_rb % 30 == 1 else None, nontrivial=True)
        else:
            R.violation("dirflow:readback:%s" % b.name, b.where(), "%s returns %s instead of the direction stored at construction" % (b.name, _fmt(src)))
    R.metric("functions_with_direction_uses", n_fn)
    R.metric("direction_uses", n_uses)
    R.metric("passthrough_fns", n_pass)
    R.metric("forward_inverse_wrappers", n_wrap)
    R.metric("inner_derived_constructors", n_inner)
    R.metric("kernel_fns", n_kernel)
    R.metric("direction_impls", n_rb)
    return R


def _is_self_transform(F, fn, fft_adts):
    """Does the function run on behalf of an existing transform (first parameter is &self of a transform type)?"""
    if "self_ty" not in fn.r or fn.argc < 1:
        return False
    st = F.types[fn.r["self_ty"]]
    if not (st["k"] == "adt" and st["p"] in fft_adts):
        return False
    t1 = F.strip_refs(fn.locals[1])
    return t1["k"] == "adt" and t1["p"] == st["p"] and fn.ty(1)["k"] == "ref"


def _readback_via_closure(F, b):
    for bi, t in b.calls():
        c = F.callee_of(t)
        if c and (c["p"].endswith("Fn::call") or c["p"].endswith("FnOnce::call_once")):
            fr = b.root(t["args"][0])
            cid = c.get("res") if c.get("res") in F.bodies else None
            if cid:
                pass
            elif fr[0] == "agg" and fr[3]["r"].get("ak") == "closure":
                cid = fr[3]["r"]["id"]
            elif fr[0] == "const" and "t" in fr[1] and F.types[fr[1]["t"]]["k"] == "closure":
                cid = F.types[fr[1]["t"]]["id"]
            cb = F.bodies.get(cid) if cid else None
            if cb is None:
                return False
            # the closure's argument is `self`; its result must be a field of it / a sub-transform's direction
            src = source_of(F, cb, {"p": [0]})
            if src[0] == "F" and src[1] == 2:
                return True
            if src[0] == "D" and src[1][0] == "field" and src[1][1] == 2:
                return True
    return False


def _paired(pairs, a, b_):
    for (s1, s2) in pairs:
        r1 = s1[1] if s1[0] == "D" else None
        r2 = s2[1] if s2[0] == "D" else None
        if {str(r1), str(r2)} == {str(a), str(b_)}:
            return True
    return False


def _mentions(pair, recv):
    for s in pair:
        if s[0] == "D" and s[1] == recv:
            return True
    return False


def _what(kind, detail):
    if kind == "arg":
        return "direction argument of %s" % (detail["p"] if detail else "?")
    return "field %s.%s" % (detail["adt"], detail["field"])


def _fmt(src):
    if not src:
        return "?"
    k = src[0]
    if k == "P":
        return "parameter %d" % src[1]
    if k == "C":
        return "constant FftDirection::%s" % src[1]
    if k == "D":
        return "fft_direction() of %s" % (src[1],)
    if k == "S":
        return "self%s" % "".join(".%s" % e[1] for e in src[1] if e[0] == "f")
    if k == "F":
        return "field of parameter %d" % src[1]
    if k == "O":
        return "opposite_direction(%s)" % _fmt(src[1])
    if k == "^":
        return "captured " + _fmt(src[1:])
    return str(src)
