"""A-FACTS: available-facts analysis for CPU features and type identity (C03 gates, C13, C14).

Backward ("requirements") formulation, greatest-precision version of DESIGN.md section 2.1:

  atoms      ('F', feature)                       executing here needs CPU feature
             ('In', X, {types})                   type variable X must be one of these types
                                                  (slice re-typing, type-gated panic arms)
             ('Unsat', text)                      cannot be established by anyone
  facts      established on CFG edges inside a function: feature-detection results, TypeId
             comparisons (positive and negative), and facts holding at every return of a callee
             (assert_f32::<T>() returns only when T = f32)
  Req(f)     atoms f needs from whoever calls it = site requirements not discharged by f's own
             #[target_feature] set, the facts at the site, or -- for methods with a `self` receiver
             of a local ADT S -- by the existence of the S value; the latter move to Need(S)
  Need(S)    atoms every construction site (struct literal) of S must establish
  closures   their requirements are charged to the function that creates them
  entry      Req of every externally reachable function must be empty; otherwise the atom and the
             call path that raised it are reported
"""
from collections import defaultdict

from .core import Result, is_panic_callee

DETECT = "__is_feature_detected::"
TRANSMUTES = ("rustfft::array_utils::workaround_transmute", "rustfft::array_utils::workaround_transmute_mut")


def _fname(seg):
    return seg.replace("sse4_1", "sse4.1").replace("sse4_2", "sse4.2")


def _join_allowed(a, b_):
    al = {}
    for k, v in a.items():
        if k in b_:
            al[k] = v | b_[k]
    return al


class State:
    """feats/allowed/excl: facts holding here. bools: for a bool local assigned from conditions
    (`let ok = a && b;`), the facts that hold whenever that local is true ('TOP' = the local is
    false on every path reaching here, so anything may be assumed under it)."""
    __slots__ = ("feats", "allowed", "excl", "bools")

    def __init__(self, feats=frozenset(), allowed=None, excl=None, bools=None):
        self.feats = feats
        self.allowed = allowed or {}
        self.excl = excl or {}
        self.bools = bools or {}

    def key(self):
        return (self.feats, tuple(sorted((k, tuple(sorted(v))) for k, v in self.allowed.items())),
                tuple(sorted((k, tuple(sorted(v))) for k, v in self.excl.items())),
                tuple(sorted((k, "TOP" if v == "TOP" else (tuple(sorted(v[0])), tuple(sorted((x, tuple(sorted(y))) for x, y in v[1].items()))))
                             for k, v in self.bools.items())))

    def join(self, o):
        al = _join_allowed(self.allowed, o.allowed)
        ex = {}
        for k, v in self.excl.items():
            if k in o.excl and (v & o.excl[k]):
                ex[k] = v & o.excl[k]
        bo = {}
        for k, v in self.bools.items():
            if k in o.bools:
                w = o.bools[k]
                if v == "TOP":
                    bo[k] = w
                elif w == "TOP":
                    bo[k] = v
                else:
                    bo[k] = (v[0] & w[0], _join_allowed(v[1], w[1]))
        return State(self.feats & o.feats, al, ex, bo)

    def copy(self):
        return State(self.feats, dict(self.allowed), dict(self.excl), dict(self.bools))

    def with_feats(self, fs):
        n = self.copy()
        n.feats = self.feats | frozenset(fs)
        return n

    def with_eq(self, x, y):
        n = self.copy()
        for a, b_ in ((x, y), (y, x)):
            cur = n.allowed.get(a)
            n.allowed[a] = frozenset([b_]) if cur is None else (cur & frozenset([b_]) or frozenset([b_]))
        return n

    def with_neq(self, x, y):
        n = self.copy()
        for a, b_ in ((x, y), (y, x)):
            n.excl[a] = n.excl.get(a, frozenset()) | frozenset([b_])
        return n

    def with_allowed(self, al2):
        n = self.copy()
        for k, v in al2.items():
            n.allowed[k] = (n.allowed[k] & v) if k in n.allowed and (n.allowed[k] & v) else v
        return n


class Gates:
    def __init__(self, F):
        self.F = F
        self.implied = {f: set(v) for f, v in F.crate.get("implied", [])}
        self.baseline = set(F.crate.get("baseline", []))
        for f in list(self.baseline):
            self.baseline |= self.implied.get(f, {f})
        self.req = defaultdict(set)          # body id -> atoms
        self.why = {}                        # (body id, atom) -> (where, text)
        self.need = defaultdict(set)         # adt path -> {(cond, atom)}
        self.need_why = {}
        self.need_sel = defaultdict(set)     # impl id -> atoms on impl params that are not Self params
        self.ret_facts = {}                  # body id -> State at return (callee names)
        self.bool_true = {}                  # bool fn id -> (feats, allowed) holding whenever it returns true
        self.bool_false_guard = {}           # bool fn id -> atoms one of which failed whenever it returns false
        self.errguard = {}
        self.states = {}
        self.impl_methods = defaultdict(list)   # (trait path, method name) -> [body]
        self.adt_impls = defaultdict(list)
        for imp in F.impls:
            for it in imp["items"]:
                bb = F.bodies.get(it["id"])
                if bb is not None and "trait" in imp:
                    self.impl_methods[(imp["trait"], it["name"])].append(bb)
        self.trait_defaults = {}
        for tr in F.traits.values():
            for it in tr["items"]:
                if it["id"] in F.bodies:
                    self.trait_defaults[(tr["name"], it["name"])] = F.bodies[it["id"]]
        self.stats = defaultdict(int)
        self.sites = []  # (body, node, atoms raised, atoms discharged locally)
        # Gated types: the existence of a value stands in for the facts its methods need. That is
        # sound only where the construction sites are charged instead (Need), and it is NEEDED only
        # where the caller is unknown: types reachable from outside the crate and types used behind
        # a trait object. Everything else exports its requirements to its (known) callers.
        dyn_traits = {t["p"] for t in F.types if t["k"] == "dyn" and t.get("p")}
        more = True
        while more:
            more = False
            for tn in list(dyn_traits):
                tr = F.traits.get(tn)
                if not tr:
                    continue
                for sup in tr["supers"]:
                    if sup.startswith("Self: "):
                        nm = sup[len("Self: "):].split("<")[0]
                        if nm in F.traits and nm not in dyn_traits:
                            dyn_traits.add(nm)
                            more = True
        self.dyn_traits = dyn_traits
        self.gated = set()
        for imp in F.impls:
            if imp.get("trait") in dyn_traits:
                p_ = F.impl_self_adt(imp)
                if p_:
                    self.gated.add(p_)
        for a in F.adts.values():
            if a.get("reachable"):
                self.gated.add(a["name"])

    # ------------------------------------------------------------------ features
    def closure(self, fs):
        out = set()
        for f in fs:
            out |= self.implied.get(f, {f})
        return out

    # ------------------------------------------------------------------ conditions
    def cond_info(self, b, operand, depth=0):
        if depth > 6:
            return None
        F = self.F
        r = b.root(operand)
        if r[0] == "const" and "v" in r[1]:
            return ("const", r[1]["v"])
        if r[0] == "multi":
            feats = set()
            other = False
            for (bi, si, n) in b.whole_defs(r[1]):
                if si == "t":
                    c = F.callee_of(n)
                    if c and DETECT in c["p"]:
                        feats.add(_fname(c["p"].rsplit("::", 1)[1]))
                    else:
                        other = True
                else:
                    rv = n["r"]
                    if rv["k"] == "use" and "c" in rv["o"] and rv["o"]["c"].get("v") == 1 and "detect" in n.get("m", ""):
                        continue  # cfg!(target_feature = f) arm of is_x86_feature_detected!
                    other = True
            if len(feats) == 1 and not other:
                return ("feat", next(iter(feats)))
            return None
        if r[0] == "call":
            t = r[2]
            c = F.callee_of(t)
            if not c:
                return None
            p = c["p"]
            if DETECT in p:
                return ("feat", _fname(p.rsplit("::", 1)[1]))
            if c["local"]:
                tid = c.get("res", c["id"])
                if tid in self.bool_true or tid in self.bool_false_guard:
                    cb_ = F.bodies.get(tid)
                    m_ = (self.subst_map(cb_, c) or {}) if cb_ is not None else {}
                    return ("sum", tid, tuple(sorted(m_.items())))
            if (p.endswith("PartialEq::eq") or p.endswith("PartialEq::ne")) and c["a"] and isinstance(c["a"][0], int) \
                    and F.ts(c["a"][0]) == "std::any::TypeId":
                x = self._typeid_of(b, t["args"][0])
                y = self._typeid_of(b, t["args"][1])
                if x is not None and y is not None:
                    info = ("tyeq", x, y)
                    return ("not", info) if p.endswith("::ne") else info
            return None
        if r[0] == "other" and r[1] and r[1].get("k") == "=":
            rv = r[1]["r"]
            if rv["k"] == "un" and rv["op"] == "Not":
                inner = self.cond_info(b, rv["a"], depth + 1)
                return ("not", inner) if inner else None
            if rv["k"] == "bin" and rv["op"] in ("Eq", "Ne"):
                x = self._typeid_of(b, rv["a"])
                y = self._typeid_of(b, rv["b"])
                if x is not None and y is not None:
                    info = ("tyeq", x, y)
                    return ("not", info) if rv["op"] == "Ne" else info
        return None

    def _typeid_of(self, b, operand):
        r = b.root(operand)
        if r[0] == "call":
            c = self.F.callee_of(r[2])
            if c and c["p"] == "std::any::TypeId::of" and c["a"] and isinstance(c["a"][0], int):
                return self.F.ts(c["a"][0])
        return None

    def edge_state(self, st, info, truth):
        """State after taking the edge on which `info` has truth value `truth`. None = infeasible."""
        if info is None:
            return st
        k = info[0]
        if k == "not":
            return self.edge_state(st, info[1], not truth)
        if k == "const":
            return st if bool(info[1]) == truth else None
        if k == "sum":
            if not truth:
                return st
            tf = self.bool_true.get(info[1])
            if tf is None:
                return st
            m_ = dict(info[2])
            al = {m_.get(kk, kk): frozenset(m_.get(x, x) for x in vv) for kk, vv in tf[1].items()}
            return st.with_feats(tf[0]).with_allowed(al)
        if k == "bools":
            v = st.bools.get(info[1])
            if not truth or v is None:
                return st
            if v == "TOP":
                return None
            return st.with_feats(v[0]).with_allowed(v[1])
        if k == "feat":
            return st.with_feats(self.closure([info[1]])) if truth else st
        if k == "tyeq":
            x, y = info[1], info[2]
            if self._concrete(x) and self._concrete(y):
                return st if (x == y) == truth else None
            return st.with_eq(x, y) if truth else st.with_neq(x, y)
        return st

    def _concrete(self, ts):
        """Is the type string free of generic parameters (approximation: known primitive leaves)?"""
        return ts in ("f32", "f64", "u8", "u16", "u32", "u64", "usize", "i8", "i16", "i32", "i64", "isize", "bool")

    # ------------------------------------------------------------------ substitution
    def subst_map(self, callee_body, c):
        args = c.get("resa") if ("res" in c and c.get("res") == callee_body.id) else c["a"]
        if args is None:
            return None
        names = callee_body.r["generics"]
        m = {}
        for (nm, kind), a in zip(names, args):
            if kind == "ty" and isinstance(a, int):
                m[nm] = self.F.ts(a)
        return m

    @staticmethod
    def subst_atom(atom, m):
        if atom[0] == "In":
            x = m.get(atom[1], atom[1])
            s = frozenset(m.get(t, t) for t in atom[2])
            return ("In", x, s)
        return atom

    def norm_atom(self, atom):
        """Normalise / trivially decide an In atom. Returns None when satisfied."""
        if atom[0] != "In":
            return atom
        x, s = atom[1], atom[2]
        if x in s:
            return None
        if self._concrete(x):
            params = [t for t in s if not self._concrete(t)]
            if len(params) == 1 and len(s) == 1:
                return ("In", params[0], frozenset([x]))
            if not params:
                return ("Unsat", "type %s is required to be one of %s" % (x, sorted(s)))
        return atom

    def eq_atoms(self, ta, tb):
        """Atoms making two types identical (structural decomposition)."""
        F = self.F
        a, b_ = F.types[ta], F.types[tb]
        if ta == tb:
            return []
        if a["k"] == "param" or b_["k"] == "param":
            return [("In", a["s"], frozenset([b_["s"]]))]
        if a["k"] != b_["k"]:
            return [("Unsat", "re-typing %s as %s" % (a["s"], b_["s"]))]
        if a["k"] == "adt":
            if a["p"] != b_["p"] or len(a["a"]) != len(b_["a"]):
                return [("Unsat", "re-typing %s as %s" % (a["s"], b_["s"]))]
            out = []
            for x, y in zip(a["a"], b_["a"]):
                if isinstance(x, int) and isinstance(y, int):
                    out += self.eq_atoms(x, y)
                elif x != y:
                    out.append(("Unsat", "re-typing %s as %s" % (a["s"], b_["s"])))
            return out
        if a["k"] in ("ref", "ptr", "slice", "array"):
            return self.eq_atoms(a["t"], b_["t"])
        if a["k"] == "tuple":
            out = []
            for x, y in zip(a["a"], b_["a"]):
                out += self.eq_atoms(x, y)
            return out
        if a["s"] == b_["s"]:
            return []
        return [("Unsat", "re-typing %s as %s" % (a["s"], b_["s"]))]

    # ------------------------------------------------------------------ local dataflow
    def analyse_states(self, b):
        """Forward must-dataflow; returns {block: State at entry} for feasible blocks."""
        F = self.F
        own = frozenset(self.closure(b.r["tf"]) | self.baseline)
        # closures inherit the target features of their creator only through the requirement mechanism
        states = {0: State(own)}
        work = [0]
        while work:
            bi = work.pop()
            st = states[bi]
            t = b.blocks[bi]["t"]
            outs = []
            # bool locals assigned from conditions / constants (lowering of `let ok = a && b;`)
            for s_ in b.blocks[bi]["s"]:
                if s_["k"] == "=" and len(s_["p"]) == 1 and b.tys(s_["p"][0]) == "bool" and len(b.whole_defs(s_["p"][0])) > 1:
                    rv = s_["r"]
                    if rv["k"] == "use":
                        o_ = rv["o"]
                        val = None
                        if "c" in o_ and "v" in o_["c"]:
                            val = "TOP" if o_["c"]["v"] == 0 else (st.feats, dict(st.allowed))
                        else:
                            info_ = self.cond_info(b, o_)
                            if info_ is not None and info_[0] != "const":
                                es = self.edge_state(st, info_, True)
                                val = "TOP" if es is None else (es.feats, dict(es.allowed))
                            elif "p" in o_ and len(o_["p"]) == 1 and o_["p"][0] in st.bools:
                                val = st.bools[o_["p"][0]]
                        if val is not None:
                            st = st.copy()
                            st.bools[s_["p"][0]] = val
            if t["k"] == "switch":
                info = self.cond_info(b, t["o"])
                if info is None and "p" in t["o"]:
                    # switch on a condition-carrying bool local
                    r_ = b.root(t["o"])
                    loc = r_[1] if r_[0] == "multi" else None
                    if loc is not None and loc in st.bools:
                        info = ("bools", loc)
                dt = F.types[t["dt"]]["s"]
                if dt == "bool":
                    for val, tgt in t["cases"]:
                        ns = self.edge_state(st, info, bool(val))
                        if ns is not None:
                            outs.append((tgt, ns))
                    ns = self.edge_state(st, info, True) if all(v == 0 for v, _ in t["cases"]) else st
                    if ns is not None:
                        outs.append((t["otherwise"], ns))
                elif info and info[0] == "const":
                    hit = [tgt for val, tgt in t["cases"] if val == info[1]]
                    outs.append((hit[0] if hit else t["otherwise"], st))
                else:
                    for s in b.succ(bi):
                        outs.append((s, st))
            elif t["k"] == "call":
                ns = st
                c = F.callee_of(t)
                if c and c["local"]:
                    tgt_id = c.get("res", c["id"])
                    rf = self.ret_facts.get(tgt_id)
                    cb = F.bodies.get(tgt_id)
                    if rf is not None and cb is not None:
                        m = self.subst_map(cb, c) or {}
                        al = {}
                        for k, v in rf.allowed.items():
                            al[m.get(k, k)] = frozenset(m.get(x, x) for x in v)
                        ns = st.with_allowed(al).with_feats(rf.feats - own if False else ())
                # a condition-carrying bool local defined by this call (`let ok = a && detect!(..)`)
                if len(t["d"]) == 1 and b.tys(t["d"][0]) == "bool" and len(b.whole_defs(t["d"][0])) > 1 and c:
                    info_ = None
                    if DETECT in c["p"]:
                        info_ = ("feat", _fname(c["p"].rsplit("::", 1)[1]))
                    elif (c["p"].endswith("PartialEq::eq") or c["p"].endswith("PartialEq::ne")) and t["args"]:
                        x_ = self._typeid_of(b, t["args"][0])
                        y_ = self._typeid_of(b, t["args"][1])
                        if x_ is not None and y_ is not None:
                            info_ = ("tyeq", x_, y_)
                            if c["p"].endswith("::ne"):
                                info_ = ("not", info_)
                    if info_ is not None:
                        es = self.edge_state(ns, info_, True)
                        ns = ns.copy()
                        ns.bools[t["d"][0]] = "TOP" if es is None else (es.feats, dict(es.allowed))
                    else:
                        ns = ns.copy()
                        ns.bools.pop(t["d"][0], None)
                if t.get("t") is not None:
                    outs.append((t["t"], ns))
            else:
                for s in b.succ(bi):
                    outs.append((s, st))
            for tgt, ns in outs:
                old = states.get(tgt)
                new = ns if old is None else old.join(ns)
                if old is None or new.key() != old.key():
                    states[tgt] = new
                    work.append(tgt)
        return states

    def compute_bool_true(self, b, states):
        """Facts (beyond the baseline) holding on every path on which a bool function returns true."""
        acc = None
        own = frozenset(self.closure(b.r["tf"]) | self.baseline)
        for bi, st in states.items():
            for s_ in b.blocks[bi]["s"]:
                if s_["k"] == "=" and s_["p"] == [0] and s_["r"]["k"] == "use":
                    o_ = s_["r"]["o"]
                    val = None
                    if "c" in o_ and "v" in o_["c"]:
                        if o_["c"]["v"] == 0:
                            continue
                        val = st
                    else:
                        info = self.cond_info(b, o_)
                        if info is None:
                            r_ = b.root(o_)
                            if r_[0] == "multi" and r_[1] in st.bools:
                                info = ("bools", r_[1])
                        if info is None:
                            return None
                        val = self.edge_state(st, info, True)
                        if val is None:
                            continue
                    acc = val if acc is None else acc.join(val)
            t = b.blocks[bi]["t"]
            if t["k"] == "call" and t["d"] == [0]:
                c = self.F.callee_of(t)
                info = None
                if c and DETECT in c["p"]:
                    info = ("feat", _fname(c["p"].rsplit("::", 1)[1]))
                elif c and (c["p"].endswith("PartialEq::eq") or c["p"].endswith("PartialEq::ne")) and len(t["args"]) == 2:
                    x_ = self._typeid_of(b, t["args"][0])
                    y_ = self._typeid_of(b, t["args"][1])
                    if x_ is not None and y_ is not None:
                        info = ("tyeq", x_, y_)
                        if c["p"].endswith("::ne"):
                            info = ("not", info)
                elif c and c["local"] and c.get("res", c["id"]) in self.bool_true:
                    cb_ = self.F.bodies.get(c.get("res", c["id"]))
                    info = ("sum", c.get("res", c["id"]), tuple(sorted((self.subst_map(cb_, c) or {}).items())))
                if info is None:
                    return None
                val = self.edge_state(st, info, True)
                if val is not None:
                    acc = val if acc is None else acc.join(val)
        if acc is None:
            return None
        names = {n for n, k in b.r["generics"]}
        return (frozenset(acc.feats - own), {k: v for k, v in acc.allowed.items() if k in names})

    def compute_bool_false_guard(self, b):
        """Atoms such that every path to `return false` crossed the negative edge of one of them."""
        start = (False, frozenset())
        states = {0: start}
        work = [0]

        def join(a, c):
            return (a[0] and c[0], a[1] | c[1])
        F = self.F
        while work:
            bi = work.pop()
            st = states[bi]
            t = b.blocks[bi]["t"]
            outs = []
            if t["k"] == "switch" and F.types[t["dt"]]["s"] == "bool":
                info = self.cond_info(b, t["o"]) or self._bool_local_atoms(b, t["o"])
                for val, tgt in t["cases"]:
                    outs.append((tgt, self._neg_edge(st, info, bool(val))))
                outs.append((t["otherwise"], self._neg_edge(st, info, True)))
            else:
                for s in b.succ(bi):
                    outs.append((s, st))
            for tgt, ns in outs:
                if ns is None:
                    continue
                old = states.get(tgt)
                new = ns if old is None else join(old, ns)
                if old is None or new != old:
                    states[tgt] = new
                    work.append(tgt)
        atoms = set()
        for bi, st in states.items():
            for s_ in b.blocks[bi]["s"]:
                if s_["k"] == "=" and s_["p"] == [0] and s_["r"]["k"] == "use":
                    o_ = s_["r"]["o"]
                    if "c" in o_ and "v" in o_["c"]:
                        if o_["c"]["v"] == 0:
                            if not st[0]:
                                return None
                            atoms |= st[1]
                    else:
                        info = self.cond_info(b, o_) or self._bool_local_atoms(b, o_)
                        ns = self._neg_edge(st, info, False) if info else None
                        if ns is None or not ns[0]:
                            return None
                        atoms |= ns[1]
            t = b.blocks[bi]["t"]
            if t["k"] == "call" and t["d"] == [0]:
                c = F.callee_of(t)
                if c and DETECT in c["p"]:
                    atoms |= st[1] | {("F", _fname(c["p"].rsplit("::", 1)[1]))}
                elif c and (c["p"].endswith("PartialEq::eq")) and len(t["args"]) == 2:
                    x_ = self._typeid_of(b, t["args"][0])
                    y_ = self._typeid_of(b, t["args"][1])
                    if x_ is None or y_ is None:
                        return None
                    if self._concrete(x_) and not self._concrete(y_):
                        x_, y_ = y_, x_
                    atoms |= st[1] | {("In", x_, frozenset([y_]))}
                else:
                    return None
        return frozenset(atoms) if atoms else None

    def compute_ret_facts(self, b, states):
        acc = None
        for bi, st in states.items():
            if b.blocks[bi]["t"]["k"] == "return":
                acc = st if acc is None else acc.join(st)
        if acc is None:
            return None
        # only type facts about the function's own generic parameters are exported
        names = {n for n, k in b.r["generics"]}
        al = {k: v for k, v in acc.allowed.items() if k in names}
        return State(frozenset(), al, {})

    # ------------------------------------------------------------------ Err guards (for unwrap)
    def compute_errguard(self, b):
        """Atoms whose truth makes every path to `Err` infeasible, or Unsat if Err can be returned
        without crossing the negative edge of any fact."""
        F = self.F
        if not b.tys(0).startswith("std::result::Result<"):
            return None
        start = (False, frozenset())
        states = {0: start}
        work = [0]

        def join(a, c):
            return (a[0] and c[0], a[1] | c[1])
        while work:
            bi = work.pop()
            st = states[bi]
            t = b.blocks[bi]["t"]
            outs = []
            if t["k"] == "switch" and F.types[t["dt"]]["s"] == "bool":
                info = self.cond_info(b, t["o"])
                if info is None:
                    info = self._bool_local_atoms(b, t["o"])
                for val, tgt in t["cases"]:
                    outs.append((tgt, self._neg_edge(st, info, bool(val))))
                outs.append((t["otherwise"], self._neg_edge(st, info, True)))
            else:
                for s in b.succ(bi):
                    outs.append((s, st))
            for tgt, ns in outs:
                if ns is None:
                    continue
                old = states.get(tgt)
                new = ns if old is None else join(old, ns)
                if old is None or new != old:
                    states[tgt] = new
                    work.append(tgt)
        atoms = set()
        found = False
        for bi, si, n in b.iter_nodes():
            if n["k"] == "=" and n["p"] == [0] and n["r"]["k"] == "agg" and n["r"].get("vname") == "Err" and bi in states:
                found = True
                crossed, at = states[bi]
                if not crossed:
                    return {("Unsat", "%s can return Err without any feature/type test failing" % b.name)}
                atoms |= at
        if not found:
            # Err may come from a callee (`?` or forwarding): unknown
            for bi, si, n in b.iter_nodes():
                if n["k"] == "call" and n["d"] == [0]:
                    return {("Unsat", "%s forwards a Result it did not build" % b.name)}
            return set()
        return atoms

    def _bool_local_atoms(self, b, operand):
        """`let ok = a && b; if ok`: the false edge of `ok` means some tested fact failed."""
        r = b.root(operand)
        if r[0] != "multi":
            return None
        atoms = set()
        for (bi, si, n) in b.whole_defs(r[1]):
            if si == "t":
                c_ = self.F.callee_of(n)
                if c_ and DETECT in c_["p"]:
                    atoms.add(("F", _fname(c_["p"].rsplit("::", 1)[1])))
                    continue
                return None
            rv = n["r"]
            if rv["k"] != "use":
                return None
            o_ = rv["o"]
            if "c" in o_ and "v" in o_["c"]:
                if o_["c"]["v"] == 0:
                    continue
                if "detect" in n.get("m", ""):
                    continue  # cfg!(target_feature) arm: statically enabled
                return None
            info = self.cond_info(b, o_)
            if info is None or info[0] not in ("feat", "tyeq"):
                return None
            if info[0] == "feat":
                atoms.add(("F", info[1]))
            else:
                x, y = info[1], info[2]
                if self._concrete(x) and not self._concrete(y):
                    x, y = y, x
                atoms.add(("In", x, frozenset([y])))
        return ("atoms", frozenset(atoms)) if atoms else None

    def _neg_edge(self, st, info, truth):
        if info is None:
            return st
        if info[0] == "atoms":
            return st if truth else (True, st[1] | set(info[1]))
        if info[0] == "sum":
            if truth:
                return st
            g = self.bool_false_guard.get(info[1])
            if not g or any(a[0] == "Unsat" for a in g):
                return st
            m_ = dict(info[2])
            return (True, st[1] | {self.subst_atom(a, m_) for a in g})
        if info[0] == "not":
            return self._neg_edge(st, info[1], not truth)
        if info[0] == "const":
            return st if bool(info[1]) == truth else None
        if truth:
            return st
        if info[0] == "feat":
            return (True, st[1] | {("F", info[1])})
        if info[0] == "tyeq":
            x, y = info[1], info[2]
            if self._concrete(x) and not self._concrete(y):
                x, y = y, x
            return (True, st[1] | {("In", x, frozenset([y]))})
        return st

    # ------------------------------------------------------------------ requirements
    def self_gate_adt(self, b):
        """ADT path S if b is a method with a `self` receiver of local ADT S."""
        F = self.F
        root = b
        if root.kind == "Closure":
            return None
        if "self_ty" not in root.r or root.argc < 1:
            return None
        st = F.types[root.r["self_ty"]]
        if st["k"] != "adt" or not st.get("local"):
            return None
        if st["p"] not in self.gated:
            return None
        t1 = F.strip_refs(root.locals[1])
        if t1["k"] == "adt" and t1["p"] == st["p"]:
            return st
        return None

    def available(self, b, st):
        return st.feats

    def discharged(self, atom, st):
        if atom[0] == "F":
            return atom[1] in st.feats
        if atom[0] == "In":
            x, s = atom[1], atom[2]
            if x in s:
                return True
            al = st.allowed.get(x)
            if al is not None and al <= s:
                return True
            # X = Y established and Y in s
            return False
        return False

    def site_atoms(self, b, node, st):
        """Raw requirement atoms of one MIR node (before discharge), with a provenance string."""
        F = self.F
        out = []
        if node["k"] in ("call", "tailcall"):
            c = F.callee_of(node)
            if c is None:
                return out
            p = c["p"]
            for f in set(c.get("tf", [])) - self.baseline:
                out.append((("F", f), "call of #[target_feature] fn %s" % p))
            if c["id"] in TRANSMUTES and len(c["a"]) >= 2:
                for a in self.eq_atoms(c["a"][0], c["a"][1]):
                    out.append((a, "slice re-typed by %s::<%s, %s>" % (p.split("::")[-1], F.ts(c["a"][0]), F.ts(c["a"][1]))))
            if c["local"]:
                tgt_id = c.get("res", c["id"])
                cb = F.bodies.get(tgt_id)
                if cb is not None and not ("tr" in c and "res" not in c and c["id"] not in F.bodies):
                    m = self.subst_map(cb, c) or {}
                    for a in self.req.get(tgt_id, ()):
                        out.append((self.subst_atom(a, m), "callee %s" % cb.name))
                    if "tr" in c and "res" not in c:
                        # default method of a trait called on a generic receiver: impls may override it
                        out += self._cha(c)
                elif "tr" in c and "res" not in c:
                    out += self._cha(c)
                # impl selection through the callee's trait bounds
                out += self._bound_selection(b, c)
            # unwrap / expect on a gated constructor
            if p.endswith("Result::<T, E>::unwrap") or p.endswith("Result::<T, E>::expect"):
                r = b.root(node["args"][0])
                if r[0] == "call":
                    c2 = F.callee_of(r[2])
                    if c2 and c2["local"]:
                        g = F.bodies.get(c2.get("res", c2["id"]))
                        if g is not None:
                            eg = self.errguard.get(g.id)
                            if eg:
                                m = self.subst_map(g, c2) or {}
                                for a in eg:
                                    out.append((self.subst_atom(a, m), "unwrap() of %s, which returns Err unless this holds" % g.name))
            # type-gated panic arm
            if node.get("t") is None and is_panic_callee(c) and st.excl:
                for x, ex in st.excl.items():
                    if x in st.allowed:
                        continue  # positively identified on this path: the panic is not about the type
                    if not self._concrete(x):
                        out.append((("In", x, frozenset(ex)), "panic reachable when %s is none of %s" % (x, sorted(ex))))
        elif node["k"] == "=":
            rv = node["r"]
            if rv["k"] == "agg" and rv.get("ak") == "closure":
                for a in self.req.get(rv["id"], ()):
                    out.append((a, "closure created here"))
            elif rv["k"] == "agg" and rv.get("ak") == "adt":
                adt = rv["adt"]
                if adt in self.need:
                    a_def = F.adts_by_name.get(adt)
                    gnames = [n for n, k in a_def["generics"]] if a_def else []
                    argl = rv["a"]
                    m = {}
                    for nm, a in zip(gnames, argl):
                        if isinstance(a, int):
                            m[nm] = F.ts(a)
                    for cond, atom in self.need[adt]:
                        skip = False
                        for pos, val in cond:
                            if pos < len(argl) and isinstance(argl[pos], int):
                                have = F.ts(argl[pos])
                                if self._concrete(have) and have != val:
                                    skip = True
                        if not skip:
                            out.append((self.subst_atom(atom, m), "construction of %s (its methods rely on this)" % adt))
            elif rv["k"] == "cast" and rv["ck"].startswith("PointerCoercion(Unsize"):
                out += self._unsize_selection(rv)
        res = []
        for a, whytxt in out:
            a = self.norm_atom(a)
            if a is not None:
                res.append((a, whytxt))
        return res

    def _cha(self, c):
        """Unresolved call of a local trait method: union over every impl of that method."""
        out = []
        tr = c["tr"]
        name = c["p"].rsplit("::", 1)[1]
        cands = list(self.impl_methods.get((tr, name), []))
        self.stats["cha_calls"] += 1
        for cb in cands:
            for a in self.req.get(cb.id, ()):
                if a[0] == "F":
                    out.append((a, "any impl of %s (e.g. %s)" % (c["p"], cb.name)))
                elif a[0] == "In":
                    # map impl parameters through the impl's trait arguments where possible
                    out.append((("Unsat", "requirement %s of %s cannot be attributed through a generic receiver" % (a, cb.name)), cb.name))
                else:
                    out.append((a, cb.name))
        return out

    def _impls_for(self, adt_type, trait):
        F = self.F
        res = []
        for imp in F.impls:
            if imp.get("trait") != trait:
                continue
            st = F.types[imp["self_ty"]]
            if st["k"] == "adt" and st["p"] == adt_type["p"]:
                res.append(imp)
        return res

    def _select(self, adt_type, trait, trait_targs):
        """Requirements attached to selecting `impl Trait<targs> for ADT` (impl parameters that do
        not occur in the Self type)."""
        F = self.F
        out = []
        for imp in self._impls_for(adt_type, trait):
            atoms = self.need_sel.get(imp["id"])
            if not atoms:
                continue
            # impl generics -> from trait args (positions after Self)
            m = {}
            ta = imp.get("trait_args", [])
            for have, want in zip(ta[1:], trait_targs):
                if isinstance(have, int) and F.types[have]["k"] == "param" and isinstance(want, int):
                    m[F.types[have]["s"]] = F.ts(want)
            # concrete self args must match
            ist = F.types[imp["self_ty"]]
            ok = True
            for x, y in zip(ist["a"], adt_type["a"]):
                if isinstance(x, int) and isinstance(y, int) and self._concrete(F.ts(x)) and self._concrete(F.ts(y)) and F.ts(x) != F.ts(y):
                    ok = False
            if not ok:
                continue
            for a in atoms:
                out.append((self.subst_atom(a, m), "selection of impl %s for %s" % (trait, ist["s"])))
        return out

    def _unsize_selection(self, rv):
        F = self.F
        out = []
        fr, to = F.types[rv["from"]], F.types[rv["to"]]

        def inner(t):
            while t["k"] in ("ref", "ptr") or (t["k"] == "adt" and t["p"] in ("std::sync::Arc", "std::boxed::Box", "std::rc::Rc") and t["a"] and isinstance(t["a"][0], int)):
                t = F.types[t["t"]] if t["k"] in ("ref", "ptr") else F.types[t["a"][0]]
            return t
        fi, ti = inner(fr), inner(to)
        if ti["k"] == "dyn" and fi["k"] == "adt" and fi.get("local"):
            out += self._select(fi, ti["p"], ti["a"])
        return out

    def _bound_selection(self, b, c):
        """Call of a generic function whose bounds `P: Trait<..>` are instantiated with a concrete local ADT."""
        F = self.F
        out = []
        cb = F.bodies.get(c.get("res", c["id"]))
        if cb is None:
            return out
        bounds = cb.r.get("bounds_full")
        if not bounds:
            return out
        m = {}
        args = c.get("resa") if "res" in c else c["a"]
        for (nm, kind), a in zip(cb.r["generics"], args or []):
            if kind == "ty" and isinstance(a, int):
                m[nm] = a
        for (pname, trait, targs) in bounds:
            if pname not in m:
                continue
            at = F.types[m[pname]]
            if at["k"] == "adt" and at.get("local"):
                # trait args are in callee terms: substitute
                inst = []
                for ta in targs:
                    if isinstance(ta, int) and F.types[ta]["k"] == "param" and F.types[ta]["s"] in m:
                        inst.append(m[F.types[ta]["s"]])
                    else:
                        inst.append(ta)
                out += self._select(at, trait, inst)
        return out

    def translate_to_adt(self, b, st_self, atom):
        """Impl parameter names -> positions of the Self ADT. Returns (cond, atom) or None when the
        atom mentions an impl parameter that is not part of Self."""
        F = self.F
        a_def = F.adts_by_name.get(st_self["p"])
        gnames = [n for n, k in a_def["generics"]] if a_def else []
        m = {}
        cond = []
        for pos, a in enumerate(st_self["a"]):
            if isinstance(a, int) and pos < len(gnames):
                ts = F.ts(a)
                if F.types[a]["k"] == "param":
                    m[ts] = gnames[pos]
                elif self._concrete(ts):
                    cond.append((pos, ts))
        if atom[0] == "In":
            names = {n for n, k in b.r["generics"]}
            used = {atom[1]} | set(atom[2])
            for u in used:
                if u in names and u not in m:
                    return None
        return (tuple(cond), self.subst_atom(atom, m))

    def run(self):
        F = self.F
        bodies = sorted(F.bodies.values(), key=lambda x: x.id)
        # pass 0: local states depend on ret_facts (summaries) -> iterate to a fixpoint
        for it in range(6):
            changed = False
            for b in bodies:
                st = self.analyse_states(b)
                self.states[b.id] = st
                rf = self.compute_ret_facts(b, st)
                old = self.ret_facts.get(b.id)
                if rf is not None and rf.allowed and (old is None or old.key() != rf.key()):
                    self.ret_facts[b.id] = rf
                    changed = True
                if b.kind != "Closure" and b.tys(0) == "bool":
                    bt = self.compute_bool_true(b, st)
                    if bt is not None and (bt[0] or bt[1]) and self.bool_true.get(b.id) != bt:
                        self.bool_true[b.id] = bt
                        changed = True
                    fg = self.compute_bool_false_guard(b)
                    if fg and self.bool_false_guard.get(b.id) != fg:
                        self.bool_false_guard[b.id] = fg
                        changed = True
            if not changed:
                break
        for b in bodies:
            if b.kind != "Closure":
                eg = self.compute_errguard(b)
                if eg is not None:
                    self.errguard[b.id] = eg
        # requirements: global fixpoint
        for it in range(40):
            changed = False
            for b in bodies:
                states = self.states[b.id]
                gate = self.self_gate_adt(b)
                for bi in sorted(states):
                    st = states[bi]
                    bb = b.blocks[bi]
                    for node in list(bb["s"]) + [bb["t"]]:
                        for atom, whytxt in self.site_atoms(b, node, st):
                            if it == 0:
                                self.stats["site_atoms"] += 1
                            if self.discharged(atom, st):
                                if it == 0:
                                    self.stats["discharged_locally"] += 1
                                continue
                            if gate is not None and atom[0] != "Unsat":
                                tr = self.translate_to_adt(b, gate, atom)
                                if tr is None:
                                    imp = b.r.get("impl")
                                    if atom not in self.need_sel[imp]:
                                        self.need_sel[imp].add(atom)
                                        self.need_why[(imp, atom)] = (b, node, whytxt)
                                        changed = True
                                elif tr not in self.need[gate["p"]]:
                                    self.need[gate["p"]].add(tr)
                                    self.need_why[(gate["p"], tr)] = (b, node, whytxt)
                                    changed = True
                            else:
                                if atom not in self.req[b.id]:
                                    self.req[b.id].add(atom)
                                    self.why[(b.id, atom)] = (b.where(node), whytxt)
                                    changed = True
            if not changed:
                self.stats["fixpoint_rounds"] = it + 1
                break
        return self

    def explain(self, bid, atom, depth=0):
        """Call path that raised an atom."""
        w = self.why.get((bid, atom))
        if not w:
            return ""
        return "%s: %s" % w


_CACHE = {}


def gates_for(F):
    g = _CACHE.get(id(F))
    if g is None:
        g = Gates(F).run()
        _CACHE.clear()
        _CACHE[id(F)] = g
    return g


def _fmt_atom(a):
    if a[0] == "F":
        return "CPU feature %s" % a[1]
    if a[0] == "In":
        return "%s in {%s}" % (a[1], ", ".join(sorted(a[2])))
    return a[1]


def r_featgate(F, cfg):
    """R-FEATGATE + R-TYGATE + R-UNWRAPGATE: no requirement escapes to an externally reachable function."""
    R = Result("R-GATES", "CPU-feature, type-identity and unwrap obligations are discharged before any externally reachable function (R-FEATGATE, R-TYGATE, R-UNWRAPGATE)")
    G = gates_for(F)
    n_entry = 0
    for b in sorted(F.bodies.values(), key=lambda x: x.id):
        if b.kind == "Closure":
            continue
        ext = b.r.get("reachable") and (b.r.get("pub") or "trait" in b.r)
        if not ext:
            continue
        n_entry += 1
        atoms = G.req.get(b.id, set())
        if not atoms:
            R.ok({"entry": b.name, "requirements": "none"} if n_entry % 60 == 1 else None)
            continue
        for a in sorted(atoms, key=str):
            R.violation("gate:%s:%s" % (b.name, _fmt_atom(a)), G.why.get((b.id, a), (b.where(), ""))[0],
                        "externally reachable %s needs [%s] but nothing obliges its caller to establish it (%s)" % (b.name, _fmt_atom(a), G.explain(b.id, a)))
    # Need(S): every construction site was examined by the fixpoint; ADTs constructible from outside must need nothing
    n_need = 0
    for adt, needs in sorted(G.need.items()):
        a_def = F.adts_by_name.get(adt)
        n_need += 1
        R.ok({"type": adt, "existence_implies": sorted({_fmt_atom(a) for c, a in needs})}, nontrivial=True, sample_cap=14)
        if a_def and a_def.get("reachable") and all(f["pub"] for v in a_def["variants"] for f in v["fields"]) and a_def["variants"][0]["fields"]:
            R.violation("gate:pubfields:%s" % adt, "%s:%s" % (a_def["file"], a_def["l"]), "%s can be built by a struct literal from outside but its methods rely on %s" % (adt, sorted(_fmt_atom(a) for c, a in needs)))
    for imp, atoms in sorted(G.need_sel.items()):
        if atoms:
            R.ok({"impl": imp, "selection_requires": sorted(_fmt_atom(a) for a in atoms)}, nontrivial=True, sample_cap=20)
    R.metric("entry_points", n_entry)
    R.metric("site_requirements", G.stats["site_atoms"])
    R.metric("discharged_locally", G.stats["discharged_locally"])
    R.metric("gated_types", n_need)
    R.metric("impls_with_selection_requirements", len([1 for v in G.need_sel.values() if v]))
    R.metric("cha_calls", G.stats["cha_calls"])
    R.metric("functions_with_requirements", len([1 for v in G.req.values() if v]))
    R.instances += G.stats["site_atoms"]
    R.nontrivial += G.stats["site_atoms"]
    return R


# --------------------------------------------------------------------------- R-PLANNERGATE
SIMD_PLANNERS = {
    "FftPlannerAvx": ("avx", {"avx", "fma"}),
    "FftPlannerSse": ("sse", {"sse4.1"}),
    "FftPlannerNeon": (None, set()),
    "FftPlannerWasmSimd": (None, set()),
}


def _planner_adt(F, short):
    for a in F.adts.values():
        if a["name"].endswith("::" + short) or a["name"] == short:
            return a
    return None


def _panic_sites(F, b, states):
    out = []
    for bi in sorted(states):
        t = b.blocks[bi]["t"]
        if t["k"] == "call" and t.get("t") is None:
            c = F.callee_of(t)
            if is_panic_callee(c):
                out.append((bi, t))
    return out


def r_plannergate(F, cfg):
    R = Result("R-PLANNERGATE", "SIMD planners return Ok only under detection + type gate and Err otherwise, never panic; stubs always Err and unconstructible; FftPlanner::new cannot panic")
    G = gates_for(F)
    feats = set(cfg.get("features", []))
    n_planners = 0
    for short, (cargo_feat, need_feats) in sorted(SIMD_PLANNERS.items()):
        adt = _planner_adt(F, short)
        if adt is None:
            R.violation("planner:%s:missing" % short, "src/lib.rs", "planner type %s not found" % short)
            continue
        n_planners += 1
        news = F.methods(adt["name"], "new")
        if len(news) != 1:
            R.violation("planner:%s:new" % short, "%s:%s" % (adt["file"], adt["l"]), "expected one %s::new" % short)
            continue
        new = news[0]
        states = G.states[new.id]
        oks, errs = [], []
        for bi, si, n in new.iter_nodes():
            if n["k"] == "=" and n["p"] == [0] and n["r"]["k"] == "agg" and bi in states:
                if n["r"].get("vname") == "Ok":
                    oks.append((bi, n))
                elif n["r"].get("vname") == "Err":
                    errs.append((bi, n))
        compiled_in = cargo_feat is not None and cargo_feat in feats
        if compiled_in:
            if not oks:
                R.violation("planner:%s:never-ok" % short, new.where(), "%s::new never returns Ok although the %s feature is compiled in" % (short, cargo_feat))
            if not errs:
                R.violation("planner:%s:never-err" % short, new.where(), "%s::new has no Err path: it cannot decline on a CPU without %s" % (short, sorted(need_feats)))
            for bi, n in oks:
                st = states[bi]
                miss = sorted(need_feats - set(st.feats))
                tyv = [k for k, k2 in new.r["generics"] if k2 == "ty"]
                tparam = tyv[0] if tyv else "T"
                al = st.allowed.get(tparam)
                if miss:
                    R.violation("planner:%s:ok-without:%s" % (short, ",".join(miss)), new.where(n), "%s::new can return Ok without having detected %s" % (short, miss))
                elif al is None or not al <= {"f32", "f64"}:
                    R.violation("planner:%s:ok-any-type" % short, new.where(n), "%s::new can return Ok for an element type that was not identified as f32/f64 (allowed=%s)" % (short, sorted(al) if al else "unconstrained"))
                else:
                    R.ok({"planner": short, "Ok_requires": sorted(need_feats) + ["%s in %s" % (tparam, sorted(al))]}, nontrivial=True)
            eg = G.errguard.get(new.id, set())
            for a in sorted(eg, key=str):
                if a[0] == "Unsat":
                    R.violation("planner:%s:err-unconditional" % short, new.where(), "%s::new can return Err although its instruction set is available: %s" % (short, a[1]))
                elif a[0] == "F" and a[1] not in need_feats:
                    R.violation("planner:%s:err-on:%s" % (short, a[1]), new.where(), "%s::new returns Err when %s is missing, although only %s are required" % (short, a[1], sorted(need_feats)))
                elif a[0] == "In" and not (a[2] <= {"f32", "f64"}):
                    R.violation("planner:%s:err-on-type" % short, new.where(), "%s::new declines on a type test other than f32/f64: %s" % (short, _fmt_atom(a)))
                else:
                    R.ok({"planner": short, "Err_only_if_missing": _fmt_atom(a)}, nontrivial=True)
            # panic edges in new and the internal constructors it calls
            seen = set()
            todo = [new]
            while todo:
                fb = todo.pop()
                if fb.id in seen:
                    continue
                seen.add(fb.id)
                fstates = G.states[fb.id]
                for bi, t in _panic_sites(F, fb, fstates):
                    st = fstates[bi]
                    typed = any(x not in st.allowed for x in st.excl)
                    if typed:
                        R.ok({"fn": fb.name, "panic": "type-gated (charged to callers as a requirement)"}, nontrivial=True)
                        continue
                    if short == "FftPlannerSse" and fb is new and "assert_ne" in t.get("m", "") + _macro_chain(fb, bi):
                        R.ok({"fn": fb.name, "panic": "assert_ne! on adjacent sorted butterfly lengths: discharged by R-TABLES (lists disjoint and duplicate-free)"}, nontrivial=True)
                        continue
                    R.violation("planner:%s:panic:%s" % (short, fb.name), fb.where(t), "undischarged panic edge in %s (reached from %s::new): the constructor must return Ok or Err, never panic" % (fb.name, short))
                for bi, t in fb.calls():
                    c = F.callee_of(t)
                    if c and c["local"] and bi in fstates:
                        cb = F.bodies.get(c.get("res", c["id"]))
                        if cb is not None and cb.kind != "Closure" and (cb.r.get("ident", "").startswith("new") or cb.r.get("ident", "").startswith("assert")):
                            todo.append(cb)
        else:
            # stub: always Err, unconstructible
            if oks:
                R.violation("planner:%s:stub-ok" % short, new.where(), "stub %s::new can return Ok" % short)
            elif not errs:
                R.violation("planner:%s:stub-noerr" % short, new.where(), "stub %s::new does not return Err" % short)
            else:
                R.ok({"planner": short, "stub": "new() returns Err on every path"}, nontrivial=True)
            fields = adt["variants"][0]["fields"] if adt["variants"] else []
            if not fields or all(f["pub"] for f in fields):
                R.violation("planner:%s:stub-constructible" % short, "%s:%s" % (adt["file"], adt["l"]), "stub %s has no private field: it could be built without new()" % short)
            built = 0
            for b in F.bodies.values():
                for bi, si, n in b.iter_nodes():
                    if n["k"] == "=" and n["r"]["k"] == "agg" and n["r"].get("ak") == "adt" and n["r"]["adt"] == adt["name"]:
                        built += 1
            if built:
                R.violation("planner:%s:stub-built" % short, "%s:%s" % (adt["file"], adt["l"]), "stub %s is constructed somewhere (%d sites): its panicking plan_* methods become reachable" % (short, built))
            else:
                R.ok({"planner": short, "stub": "unconstructible: private field, zero construction sites"}, nontrivial=True)
    R.metric("simd_planners", n_planners)
    # FftPlanner::new
    fp = _planner_adt(F, "FftPlanner")
    news = F.methods(fp["name"], "new") if fp else []
    if len(news) != 1:
        R.violation("planner:FftPlanner:new", "src/plan.rs", "FftPlanner::new not found")
        return R
    from .inline import inlined
    new = inlined(F, news[0])       # a private helper such as `choose_planner()` is judged as part of new()
    states = dict.fromkeys(new.reachable_blocks(), True)
    for bi, t in _panic_sites(F, new, states):
        R.violation("planner:FftPlanner:panic", new.where(t), "FftPlanner::new has a panic edge")
    order = []
    for bi, t in new.calls():
        c = F.callee_of(t)
        if not c or bi not in states or b_is_cleanup(new, bi):
            continue
        p = c["p"]
        if p.endswith("Result::<T, E>::unwrap") or p.endswith("Result::<T, E>::expect") or p.endswith("Option::<T>::unwrap") or p.endswith("Option::<T>::expect"):
            R.violation("planner:FftPlanner:unwrap", new.where(t), "FftPlanner::new unwraps a fallible result")
        cb = F.bodies.get(c.get("res", c["id"])) if c["local"] else None
        if cb is not None and cb.r.get("ident") == "new" and "self_ty" in cb.r:
            order.append((bi, F.types[cb.r["self_ty"]]["p"].split("::")[-1]))
    dom = new.dominators()
    names = [n for _, n in order]
    want = ["FftPlannerAvx", "FftPlannerSse", "FftPlannerNeon", "FftPlannerWasmSimd", "FftPlannerScalar"]
    chain_ok = names == want and all(order[i][0] in dom.get(order[i + 1][0], set()) for i in range(len(order) - 1))
    if not chain_ok:
        R.violation("planner:FftPlanner:order", new.where(), "FftPlanner::new probes %s, expected the fallback chain %s with each probe dominated by the previous one" % (names, want))
    else:
        R.ok({"FftPlanner::new": "probes " + " -> ".join(want) + ", no panic edge, no unwrap"}, nontrivial=True)
    # every Ok payload lands in the matching variant
    for bi, si, n in new.iter_nodes():
        if n["k"] == "=" and n["r"]["k"] == "agg" and n["r"].get("ak") == "adt" and n["r"]["adt"].endswith("ChosenFftPlanner"):
            vt = new.ty(n["r"]["ops"][0]["p"][0]) if n["r"]["ops"] and "p" in n["r"]["ops"][0] else None
            vn = n["r"]["vname"]
            tn = vt["p"].split("::")[-1] if vt and vt["k"] == "adt" else "?"
            if tn != "FftPlanner" + vn:
                R.violation("planner:FftPlanner:variant:%s" % vn, new.where(n), "ChosenFftPlanner::%s is filled with a %s" % (vn, tn))
            else:
                R.ok(None, nontrivial=True)
    return R


def b_is_cleanup(b, bi):
    return bool(b.blocks[bi].get("cleanup"))


def _macro_chain(b, bi):
    """Macro names of the statements in the blocks leading to a panic (assert_ne! expands into several blocks)."""
    out = ""
    seen = set()
    st = [bi]
    preds = b.preds()
    hops = 0
    while st and hops < 8:
        x = st.pop()
        if x in seen:
            continue
        seen.add(x)
        hops += 1
        for s in b.blocks[x]["s"]:
            out += s.get("m", "")
        out += b.blocks[x]["t"].get("m", "")
        st.extend(preds.get(x, []))
    return out
