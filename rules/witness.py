"""Witness crates: rustc's type checker is the decision procedure.

Each witness lives in /verif/witness/<name>/ with
  Cargo.toml.in      (@SRC@ / @FEATURES@ placeholders; path-depends on the tree under analysis)
  src/lib.rs         must type-check
  fail/*.rs          each is a replacement lib.rs that must FAIL with the error code named in its
                     first line `//! expect: E0xxx` (read from rustc's JSON diagnostics, so a typo in a
                     path cannot masquerade as the expected failure)
"""
import json
import os
import re
import shutil
import subprocess
import tempfile

from .core import Result

WITNESSES = {
    "W-API": ("api_witness", "downstream crate naming every 6.4.1 public item type-checks"),
    "W-AUTO": ("autotrait_witness", "Send/Sync obligations for every public type and for generic T: FftNum"),
    "W-NUM": ("fftnum_witness", "a minimal non-float element type meeting exactly the public bound type-checks against all portable code"),
}


def _cargo(cwd, tgt, toolchain=None):
    env = dict(os.environ)
    env["CARGO_TARGET_DIR"] = tgt
    env["CARGO_NET_OFFLINE"] = "true"
    env.pop("RUSTC_WORKSPACE_WRAPPER", None)
    env.pop("RUSTFLAGS", None)
    cmd = ["cargo"] + ([toolchain] if toolchain else []) + ["check", "--offline", "--lib", "--message-format=json"]
    p = subprocess.run(cmd, cwd=cwd, env=env, stdout=subprocess.PIPE, stderr=subprocess.PIPE, text=True)
    diags = []
    for line in p.stdout.splitlines():
        try:
            m = json.loads(line)
        except ValueError:
            continue
        if m.get("reason") == "compiler-message" and m["message"].get("level") == "error":
            code = (m["message"].get("code") or {}).get("code")
            sp = m["message"].get("spans") or [{}]
            diags.append({"crate": m.get("target", {}).get("name"), "code": code, "msg": m["message"]["message"],
                          "line": sp[0].get("line_start"), "file": sp[0].get("file_name")})
    return p.returncode, diags, p.stderr


def _count_obligations(text):
    """Number of explicit obligations written in a witness source: statements that ascribe a
    signature, instantiate a bound-checking helper, call an API item, or implement a trait."""
    n = 0
    for line in text.splitlines():
        t = line.strip()
        if t.startswith("//"):
            continue
        if t.startswith("impl "):
            n += 1
        elif t.endswith(";") and ("::<" in t or t.startswith("let ") or "(" in t):
            n += 1
    return n


def run(wname, src, here, tier, feature_sets):
    cname, title = WITNESSES[wname]
    R = Result(wname, title)
    wdir = os.path.join(here, "witness", cname)
    # The auto-trait and API witnesses cover every cargo feature set also in the quick tier: the planner stubs that
    # replace a compiled-out SIMD planner are public API with their own auto-traits (a `PhantomData<*const T>` in a stub
    # makes FftPlanner !Send only when `avx` or `sse` is off).
    labels = list(feature_sets) if (tier != "quick" or wname in ("W-AUTO", "W-API")) else ["default"]
    work = tempfile.mkdtemp(prefix="rfv-wit.")
    try:
        crate = os.path.join(work, cname)
        shutil.copytree(wdir, crate)
        lock = os.path.join(src, "Cargo.lock")
        lib_rs = os.path.join(crate, "src", "lib.rs")
        good = open(lib_rs).read()
        nob = _count_obligations(good)
        R.metric("obligations_in_source", nob)
        from concurrent.futures import ThreadPoolExecutor

        def one_label(label):
            feats = {"default": ["avx", "sse", "neon"], "sse": ["sse"], "avx": ["avx"], "none": []}[label]
            lc = os.path.join(work, "crate-" + label)
            shutil.copytree(wdir, lc)
            toml = open(os.path.join(lc, "Cargo.toml.in")).read()
            toml = toml.replace("@SRC@", src).replace("@FEATURES@", ", ".join('"%s"' % f for f in feats))
            open(os.path.join(lc, "Cargo.toml"), "w").write(toml)
            if os.path.exists(lock):
                shutil.copy(lock, os.path.join(lc, "Cargo.lock"))
            return label, _cargo(lc, os.path.join(work, "target-" + label))
        with ThreadPoolExecutor(max_workers=4) as ex:
            results = dict(ex.map(one_label, labels))
        for label in labels:
            feats = {"default": ["avx", "sse", "neon"], "sse": ["sse"], "avx": ["avx"], "none": []}[label]
            toml = open(os.path.join(crate, "Cargo.toml.in")).read()
            toml = toml.replace("@SRC@", src).replace("@FEATURES@", ", ".join('"%s"' % f for f in feats))
            open(os.path.join(crate, "Cargo.toml"), "w").write(toml)
            if os.path.exists(lock):
                shutil.copy(lock, os.path.join(crate, "Cargo.lock"))
            tgt = os.path.join(work, "target-" + label)
            open(lib_rs, "w").write(good)
            rc, diags, err = results[label]
            if rc != 0:
                if not diags:
                    R.violation("%s:build:%s" % (wname, label), "witness/%s" % cname,
                                "witness could not be built (feature set %s): %s" % (label, err[-1500:]))
                for d in diags:
                    where = "%s:%s" % (d["file"], d["line"])
                    if d["crate"] == cname or d["crate"] is None:
                        # key by the offending source line of the frozen witness (stable: the witness never changes)
                        srcline = ""
                        try:
                            srcline = good.splitlines()[d["line"] - 1].strip()
                        except Exception:
                            pass
                        R.violation("%s:%s:%s" % (wname, d["code"], srcline[:120]), "witness/%s/src/lib.rs:%s" % (cname, d["line"]),
                                    "6.4.1 client code no longer compiles (%s, features=%s): %s :: %s" % (d["code"], label, d["msg"][:300], srcline))
                    else:
                        R.violation("%s:dep:%s" % (wname, label), where, "rustfft itself failed to compile: %s" % d["msg"][:300])
                continue
            R.instances += nob
            R.nontrivial += nob
            if len(R.samples) < 6:
                R.samples.append({"features": label, "obligations_type_checked": nob, "verdict": "accepted by rustc"})
            # negative twins: only under the first feature set (they test the harness, not /repo)
            if label == labels[0]:
                fdir = os.path.join(crate, "fail")
                for fn in sorted(os.listdir(fdir)) if os.path.isdir(fdir) else []:
                    text = open(os.path.join(fdir, fn)).read()
                    m = re.search(r"expect:\s*(E\d+)", text)
                    exp = m.group(1)
                    open(lib_rs, "w").write(text)
                    rc2, d2, err2 = _cargo(crate, tgt)
                    codes = sorted({d["code"] for d in d2 if d["crate"] == cname})
                    if rc2 == 0 or codes != [exp]:
                        R.violation("%s:twin:%s" % (wname, fn), "witness/%s/fail/%s" % (cname, fn),
                                    "negative twin did not fail as expected (wanted only %s, got rc=%s codes=%s): the witness harness is unsound"
                                    % (exp, rc2, codes))
                    else:
                        R.ok({"twin": fn, "rejected_with": exp}, nontrivial=True)
                open(lib_rs, "w").write(good)
    finally:
        shutil.rmtree(work, ignore_errors=True)
    return R
