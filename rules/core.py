"""Rule result container shared by all rule modules."""


class Result:
    def __init__(self, rule, title):
        self.rule = rule
        self.title = title
        self.instances = 0        # rule instances examined
        self.nontrivial = 0       # instances whose verdict needed a non-trivial step
        self.samples = []         # a few instances written out
        self.violations = []      # dicts: key, where, msg
        self.undecided = []       # inventory of sites the rule cannot decide (never silently passed)
        self.metrics = {}         # named counts compared against floors.json
        self.notes = []
        self._seen = set()

    def ok(self, desc=None, nontrivial=False, sample_cap=12):
        self.instances += 1
        if nontrivial:
            self.nontrivial += 1
        if desc is not None and len(self.samples) < sample_cap:
            self.samples.append(desc)

    def violation(self, key, where, msg):
        """key identifies the violating construct without line numbers."""
        self.instances += 1
        k = "%s|%s" % (self.rule, key)
        if k in self._seen:
            return
        self._seen.add(k)
        self.violations.append({"rule": self.rule, "key": k, "where": where, "msg": msg})

    def metric(self, name, value):
        self.metrics[name] = value

    def note(self, s):
        self.notes.append(s)

    def to_json(self):
        return {
            "rule": self.rule,
            "title": self.title,
            "instances": self.instances,
            "nontrivial": self.nontrivial,
            "samples": self.samples,
            "violations": self.violations,
            "undecided": self.undecided[:40],
            "undecided_count": len(self.undecided),
            "metrics": self.metrics,
            "notes": self.notes,
        }


def is_std_macro(node):
    """True when the node comes from the expansion of a macro defined outside the crate
    (format_args!, assert!, vec!, derives ...)."""
    m = node.get("m")
    return bool(m) and m.startswith("X:")


def is_panic_callee(c):
    """Diverging panic entry points of core/std, matched on the definition path (the printed path
    of the same function differs between cargo feature sets: core::panicking::panic_fmt vs std::rt::panic_fmt)."""
    if not c:
        return False
    i = c.get("id", "")
    return i.startswith("core::panicking::") or i.startswith("std::panicking::") or "panicking" in c.get("p", "") \
        or i in ("core::option::expect_failed", "core::option::unwrap_failed", "core::result::unwrap_failed")
