"""Entry and validation discipline (C09, C03): R-ENTRY, R-HELPER, R-TRIM, R-ERRSINK, R-WHOCALLS."""
from .core import Result, is_panic_callee

ENTRY_METHODS = {
    "process_with_scratch": ("inplace", "get_inplace_scratch_len"),
    "process_outofplace_with_scratch": ("outofplace", "get_outofplace_scratch_len"),
    "process_immutable_with_scratch": ("immut", "get_immutable_scratch_len"),
}
TRANSMUTES = ("rustfft::array_utils::workaround_transmute", "rustfft::array_utils::workaround_transmute_mut")


# --------------------------------------------------------------------------- signature shapes
def _param_shape(F, b):
    """Classify the parameters of a helper/validator by type: data slices, usizes, callables."""
    slices, usizes, fns, other = [], [], [], []
    for i in range(1, b.argc + 1):
        t = b.ty(i)
        if t["k"] == "ref" and F.types[t["t"]]["k"] == "slice":
            slices.append((i, t["m"]))
        elif t["k"] == "prim" and t["s"] == "usize":
            usizes.append(i)
        elif t["k"] == "param" or t["k"] == "closure":
            fns.append(i)
        else:
            other.append(i)
    return slices, usizes, fns, other


def _is_unit_result(F, b):
    s = b.tys(0)
    return s.startswith("std::result::Result<(), ()>")


def find_validators(F):
    """Validators: local non-closure fns returning Result<(),()> that invoke a callable parameter."""
    out = {}
    for b in F.bodies.values():
        if b.kind != "Fn" or not _is_unit_result(F, b):
            continue
        slices, usizes, fns, other = _param_shape(F, b)
        if not slices or not usizes or not fns or other:
            continue
        calls_param = False
        for bi, t in b.calls():
            c = F.callee_of(t)
            if c and c["p"].endswith("FnMut::call_mut") and t["args"]:
                r = b.root(t["args"][0])
                if r[0] == "param" and r[1] in fns:
                    calls_param = True
        if calls_param:
            out[b.id] = b
    return out


def _kind_of(slices, has_scratch):
    data = slices[:-1] if has_scratch else slices
    if len(data) == 1:
        return "inplace"
    if len(data) == 2:
        return "immut" if not data[0][1] else "outofplace"
    return None


def find_helpers(F, validators):
    """Helpers: local fns that call a validator passing their own parameters, plus wrappers
    (bodies that only forward their own parameters, in order, to a helper)."""
    helpers = {}
    for b in F.bodies.values():
        if b.kind != "Fn":
            continue
        for bi, t in b.calls():
            c = F.callee_of(t)
            if c and c["id"] in validators:
                slices, usizes, fns, other = _param_shape(F, b)
                has_scratch = len(usizes) == 2
                helpers[b.id] = {"body": b, "kind": _kind_of(slices, has_scratch), "scratch": has_scratch,
                                 "unroll": len(fns) == 2, "validator": c["id"], "call": (bi, t), "wrapper_of": None}
    changed = True
    while changed:
        changed = False
        for b in F.bodies.values():
            if b.kind != "Fn" or b.id in helpers:
                continue
            calls = list(b.calls())
            if len(calls) != 1:
                continue
            bi, t = calls[0]
            c = F.callee_of(t)
            if not c or c["id"] not in helpers:
                continue
            # pure forwarding: args are params 1..n in order
            ok = len(t["args"]) == b.argc
            for k, a in enumerate(t["args"]):
                r = b.root(a)
                if r != ("param", k + 1):
                    ok = False
            if ok:
                h = dict(helpers[c["id"]])
                h["body"] = b
                h["wrapper_of"] = c["id"]
                helpers[b.id] = h
                changed = True
    return helpers


def const_return(F, b):
    """The constant a trivially constant method returns (`fn len(&self) -> usize { 8 }`), else None.
    Looks through one level of `|this| K` closures / forwarding calls to constant methods."""
    val = None
    found = False
    for bi, si, n in b.iter_nodes():
        if n["k"] == "=" and n["p"] == [0]:
            found = True
            r = b.root({"p": [0]}) if False else None
            rv = n["r"]
            v = None
            if rv["k"] == "use" and "c" in rv["o"] and "v" in rv["o"]["c"]:
                v = rv["o"]["c"]["v"]
            elif rv["k"] == "use" and "p" in rv["o"]:
                rt = b.root(rv["o"])
                if rt[0] == "const" and "v" in rt[1]:
                    v = rt[1]["v"]
            if v is None:
                return None
            if val is not None and val != v:
                return None
            val = v
        if n["k"] == "call" and n["d"] == [0]:
            found = True
            c = F.callee_of(n)
            if not c:
                return None
            tgt = F.bodies.get(c.get("res", c["id"]))
            if tgt is None:
                # closure call: `(|this| K)(self)` -> Fn::call on a closure aggregate
                if c["p"].endswith("Fn::call") or c["p"].endswith("FnOnce::call_once") or c["p"].endswith("FnMut::call_mut"):
                    r = b.root(n["args"][0])
                    if r[0] == "agg" and r[3]["r"].get("ak") == "closure":
                        tgt = F.bodies.get(r[3]["r"]["id"])
                    elif r[0] == "const":
                        # non-capturing closure is a ZST constant of closure type
                        t = F.types[r[1]["t"]] if "t" in r[1] else None
                        if t and t["k"] == "closure":
                            tgt = F.bodies.get(t["id"])
                if tgt is None:
                    return None
            v = const_return(F, tgt)
            if v is None:
                return None
            if val is not None and val != v:
                return None
            val = v
    return val if found else None


# --------------------------------------------------------------------------- R-ENTRY
def r_entry(F, cfg):
    R = Result("R-ENTRY", "every process_* of every Fft impl routes through the validating helper of its kind")
    validators = find_validators(F)
    helpers = find_helpers(F, validators)
    R.metric("validators", len(validators))
    R.metric("helpers", len([h for h in helpers.values() if not h["wrapper_of"]]))
    R.metric("helper_wrappers", len([h for h in helpers.values() if h["wrapper_of"]]))
    impls = F.trait_impls("Fft")
    R.metric("fft_impls", len(impls))
    n_entry = 0
    exceptions = 0
    for imp in impls:
        selfs = F.ts(imp["self_ty"])
        names = [it["name"] for it in imp["items"]]
        if "process" in names:
            R.violation("override-process:%s" % selfs, "%s:%s" % (imp["file"], imp["l"]),
                        "impl overrides the provided Fft::process (which allocates exactly get_inplace_scratch_len())")
        for mname, (kind, getter) in ENTRY_METHODS.items():
            b = F.body_of_impl_item(imp, mname)
            if b is None:
                R.violation("missing:%s:%s" % (selfs, mname), "%s:%s" % (imp["file"], imp["l"]), "entry point has no body")
                continue
            n_entry += 1
            key = "%s::%s" % (selfs, mname)
            calls = list(b.calls())
            hcalls = [(bi, t) for bi, t in calls if (F.callee_of(t) or {}).get("id") in helpers]
            if not hcalls:
                if _butterfly1_exception(F, b, imp, kind):
                    exceptions += 1
                    R.ok({"entry": key, "verdict": "exception: length-1 transform, safe code, copy_from_slice checks lengths"}, nontrivial=True)
                else:
                    R.violation("no-helper:%s" % key, b.where(), "%s does not call a validating fft_helper_* (kernel reachable without validation)" % b.name)
                continue
            if len(hcalls) != 1:
                R.violation("multi-helper:%s" % key, b.where(), "%s calls %d validating helpers" % (b.name, len(hcalls)))
                continue
            bi, t = hcalls[0]
            h = helpers[F.callee_of(t)["id"]]
            problems = _check_entry_call(F, b, imp, t, h, kind, getter, helpers)
            # every other call must be an allowed adaptor
            for obi, ot in calls:
                if ot is t:
                    continue
                c = F.callee_of(ot)
                if c is None:
                    problems.append("indirect call")
                    continue
                if c["id"] in TRANSMUTES or c["p"] in ("Length::len",) or c["p"].startswith("Fft::get_"):
                    continue
                rb = F.bodies.get(c.get("res", c["id"]))
                if rb is not None and const_return(F, rb) is not None:
                    continue
                problems.append("unexpected call of %s before/after validation" % c["p"])
            if problems:
                for p in problems:
                    R.violation("entry:%s:%s" % (key, p), b.where(t), "%s: %s" % (b.name, p))
            else:
                R.ok({"entry": key, "helper": F.callee_of(t)["p"], "kind": kind} if n_entry % 37 == 1 else None, nontrivial=True)
    R.metric("entry_points", n_entry)
    R.metric("exceptions", exceptions)
    return R


def _butterfly1_exception(F, b, imp, kind="inplace"):
    """Named exception: a transform whose Length::len is the constant 1 and whose entry body is
    safe code (no unsafe callee, no raw pointer deref). Length 1 admits no remainder and needs no
    scratch, so the only ill shape left is input.len() != output.len(): the two-buffer entry points
    must therefore contain an operation that panics on unequal lengths -- `output.copy_from_slice(input)`
    on the method's own parameters, or a comparison of the two lengths guarding a panic."""
    if kind in ("immut", "outofplace"):
        checked = False
        for bi, t in b.calls():
            c = F.callee_of(t)
            if c and c["p"].endswith("<impl [T]>::copy_from_slice") and len(t["args"]) == 2:
                if b.root(t["args"][0]) == ("param", 3) and b.root(t["args"][1]) == ("param", 2):
                    checked = True
            elif c and c["local"] and not c.get("us"):
                # a private safe helper doing the copy: `copy_through(input, output)`
                g = F.bodies.get(c.get("res", c["id"]))
                if g is not None and g.kind != "Closure":
                    amap = {}
                    for k, a in enumerate(t["args"]):
                        rr = b.root(a)
                        if rr[0] == "param":
                            amap[k + 1] = rr[1]
                    for gbi, gt in g.calls():
                        gc = F.callee_of(gt)
                        if gc and gc["p"].endswith("<impl [T]>::copy_from_slice") and len(gt["args"]) == 2:
                            d0, s0 = g.root(gt["args"][0]), g.root(gt["args"][1])
                            if d0[0] == "param" and s0[0] == "param" and amap.get(d0[1]) == 3 and amap.get(s0[1]) == 2:
                                checked = True
        if not checked:
            for x in range(len(b.blocks)):
                for (tgt, op, lhs, rhs, truth) in _switch_edges(F, b, x, []):
                    rel = _norm(op, lhs, rhs, truth)
                    if _holds(rel, "Eq", ("len", 2), ("len", 3)):
                        others = [e for e in _switch_edges(F, b, x, []) if e[0] != tgt]
                        from .tables import region_panics
                        if others and region_panics(F, b, others[0][0]):
                            checked = True
        if not checked:
            return False
    lb = None
    for i in F.impls:
        if i.get("trait") == "Length" and i["self_ty"] == imp["self_ty"]:
            lb = F.body_of_impl_item(i, "len")
    if lb is None or const_return(F, lb) != 1:
        return False
    for bi, t in b.calls():
        c = F.callee_of(t)
        if c is None or c.get("us"):
            return False
        if c["local"]:
            g = F.bodies.get(c.get("res", c["id"]))
            # safe private helpers made only of safe std calls are fine
            if g is None or g.r.get("unsafe") or any((F.callee_of(gt) or {"us": True}).get("us") or (F.callee_of(gt) or {}).get("local") for _, gt in g.calls()):
                return False
    for bi, si, n in b.iter_nodes():
        if n["k"] == "=":
            for place in [n["p"]] + ([n["r"]["p"]] if "p" in n["r"] else []):
                if "d" in place[1:] and b.ty(place[0])["k"] == "ptr":
                    return False
    return True


def _self_method_const(F, b, term, imp):
    """If term calls a method on self (param 1) that returns a constant, return it."""
    c = F.callee_of(term)
    if not c or not term["args"]:
        return None
    if b.root(term["args"][0]) != ("param", 1):
        return None
    tgt = F.bodies.get(c.get("res", c["id"]))
    if tgt is None:
        return None
    return const_return(F, tgt)


def _check_entry_call(F, b, imp, t, h, kind, getter, helpers):
    problems = []
    if h["kind"] != kind:
        problems.append("calls the %s helper from the %s entry point" % (h["kind"], kind))
        return problems
    hb = h["body"]
    slices, usizes, fns, other = _param_shape(F, hb)
    args = t["args"]
    if len(args) != hb.argc:
        return ["arity mismatch"]
    ndata = len(slices) - (1 if h["scratch"] else 0)
    # data arguments: the method's own slice parameters, in order, optionally re-typed
    for k in range(ndata):
        pi = slices[k][0]
        r = b.root(args[pi - 1], through_calls=TRANSMUTES)
        if r != ("param", 2 + k):
            problems.append("data argument %d is not the method's own buffer parameter %d (found %s)" % (k + 1, 2 + k, _rs(r)))
    # chunk_size = Length::len(self) (or a constant-equal method on self)
    cs = usizes[0]
    r = b.root(args[cs - 1])
    len_const = None
    ok = False
    if r[0] == "call":
        c = F.callee_of(r[2])
        if c and c["p"] == "Length::len" and b.root(r[2]["args"][0]) == ("param", 1):
            ok = True
            len_const = _self_method_const(F, b, r[2], imp)
    if not ok:
        problems.append("chunk_size is not self.len() (found %s)" % _rs(r))
    # required_scratch / scratch
    getter_body = F.body_of_impl_item(imp, getter)
    getter_const = const_return(F, getter_body) if getter_body else None
    scratch_param = b.argc  # last parameter of the entry method
    if h["scratch"]:
        rq = usizes[1]
        sc = slices[-1][0]
        rr = b.root(args[rq - 1])
        rs = b.root(args[sc - 1], through_calls=TRANSMUTES)
        req_ok = False
        req_const = None
        if rr[0] == "call":
            c = F.callee_of(rr[2])
            if c and c["p"] == "Fft::" + getter and b.root(rr[2]["args"][0]) == ("param", 1):
                req_ok = True
            else:
                req_const = _self_method_const(F, b, rr[2], imp)
        elif rr[0] == "const" and "v" in rr[1]:
            req_const = rr[1]["v"]
        if not req_ok and req_const is not None:
            if getter_const is not None and getter_const == req_const:
                req_ok = True
            else:
                problems.append("required_scratch is the constant %s but %s() returns %s" % (req_const, getter, getter_const if getter_const is not None else "a run-time value"))
                req_ok = True  # reported
        if not req_ok:
            problems.append("required_scratch is not self.%s() (found %s)" % (getter, _rs(rr)))
        # the scratch handed over: own scratch parameter, or an empty array when nothing is required
        if rs == ("param", scratch_param):
            pass
        else:
            empty = _is_empty_array(F, b, args[sc - 1])
            zero_req = (req_const == 0) or (getter_const == 0 and rr[0] == "call")
            if not (empty and zero_req):
                problems.append("scratch argument is neither the method's scratch parameter nor `&mut []` with a zero requirement (found %s)" % _rs(rs))
    else:
        # unrolled helpers take no scratch: the advertised requirement must then be 0
        if getter_const != 0:
            problems.append("scratch-less helper used but %s() returns %s" % (getter, getter_const))
    return problems


def _is_empty_array(F, b, operand):
    """&mut [] : a reference to a zero-length array, unsized to a slice."""
    cur = operand
    for _ in range(10):
        if "p" not in cur:
            return False
        loc = cur["p"][0]
        t = b.ty(loc)
        if t["k"] == "ref":
            inner = F.types[t["t"]]
            if inner["k"] == "array" and inner.get("n") == 0:
                return True
        ds = b.whole_defs(loc)
        if len(ds) != 1 or ds[0][1] == "t":
            return False
        r = ds[0][2]["r"]
        if r["k"] in ("use", "cast"):
            cur = r["o"]
        elif r["k"] == "ref":
            cur = {"p": [r["p"][0]]}
        else:
            return False
    return False


def _rs(r):
    if r[0] == "call":
        c = r[2]["f"].get("c", {})
        return "result of %s" % c.get("p")
    if r[0] == "const":
        return "constant %s" % (r[1].get("v", r[1].get("s")))
    if r[0] == "param":
        return "parameter %d" % r[1]
    return r[0]


# --------------------------------------------------------------------------- R-HELPER / R-TRIM
def _len_of_param(F, b, operand):
    """If operand is slice::len(x) with x rooted at parameter p, return p."""
    r = b.root(operand)
    if r[0] == "call":
        c = F.callee_of(r[2])
        if c and c["p"].endswith("<impl [T]>::len") and r[2]["args"]:
            rr = b.root(r[2]["args"][0])
            if rr[0] == "param":
                return rr[1]
    return None


def _classify_operand(F, b, operand, usizes, depth=0):
    """-> ('len', p) | ('param', p) | ('mul', p, k) | ('const', v) | ('rem', a, b) | ('div', a, b) | None"""
    if depth > 8:
        return None
    p = _len_of_param(F, b, operand)
    if p is not None:
        return ("len", p)
    r = b.root(operand)
    if r[0] == "param":
        return ("param", r[1])
    if r[0] == "const" and "v" in r[1]:
        return ("const", r[1]["v"])
    if r[0] == "other" and r[1] and r[1].get("k") == "=":
        rv = r[1]["r"]
        if rv["k"] == "bin" and rv["op"] in ("Mul", "MulUnchecked", "MulWithOverflow", "Shl"):
            a = _classify_operand(F, b, rv["a"], usizes, depth + 1)
            c = _classify_operand(F, b, rv["b"], usizes, depth + 1)
            if a and c:
                if rv["op"] == "Shl":
                    if a[0] == "param" and c[0] == "const":
                        return ("mul", a[1], 1 << c[1])
                    return None
                if a[0] == "param" and c[0] == "const":
                    return ("mul", a[1], c[1])
                if c[0] == "param" and a[0] == "const":
                    return ("mul", c[1], a[1])
        if rv["k"] == "bin" and rv["op"] in ("Rem", "Div"):
            a = _classify_operand(F, b, rv["a"], usizes, depth + 1)
            c = _classify_operand(F, b, rv["b"], usizes, depth + 1)
            if a and c:
                return ("rem" if rv["op"] == "Rem" else "div", a, c)
    return None


def _switch_edges(F, b, bi, usizes):
    """For a switch on a comparison, return [(target_block, op, lhs, rhs, truth)] per edge.
    `x.is_empty()` is `len(x) == 0`; `!c` swaps the edges."""
    t = b.blocks[bi]["t"]
    if t["k"] != "switch":
        return []
    r = b.root(t["o"])
    neg = False
    for _ in range(3):
        if r[0] == "other" and r[1] and r[1].get("k") == "=" and r[1]["r"]["k"] == "un" and r[1]["r"]["op"] == "Not":
            neg = not neg
            r = b.root(r[1]["r"]["a"])
        else:
            break
    op = lhs = rhs = None
    if r[0] == "call":
        c = F.callee_of(r[2])
        if c and c["p"].endswith("<impl [T]>::is_empty") and r[2]["args"]:
            rr = b.root(r[2]["args"][0])
            if rr[0] == "param":
                op, lhs, rhs = "Eq", ("len", rr[1]), ("const", 0)
    elif r[0] == "other" and r[1] and r[1].get("k") == "=" and r[1]["r"]["k"] == "bin":
        rv = r[1]["r"]
        if rv["op"] in ("Lt", "Le", "Gt", "Ge", "Eq", "Ne"):
            op = rv["op"]
            lhs = _classify_operand(F, b, rv["a"], usizes)
            rhs = _classify_operand(F, b, rv["b"], usizes)
    if op is None:
        return []
    out = []
    for val, tgt in t["cases"]:
        if val == 0:
            out.append((tgt, op, lhs, rhs, neg))
    out.append((t["otherwise"], op, lhs, rhs, not neg))
    return out


NEG = {"Lt": "Ge", "Ge": "Lt", "Le": "Gt", "Gt": "Le", "Eq": "Ne", "Ne": "Eq"}
SWAP = {"Lt": "Gt", "Gt": "Lt", "Le": "Ge", "Ge": "Le", "Eq": "Eq", "Ne": "Ne"}


def _norm(op, lhs, rhs, truth):
    """Normalise an edge to a relation that HOLDS on it: (op, lhs, rhs)."""
    if not truth:
        op = NEG[op]
    return op, lhs, rhs


def _holds(rel, want_op, a, c):
    """Does the relation `rel` (op,lhs,rhs) state `a want_op c`?"""
    op, lhs, rhs = rel
    if lhs == a and rhs == c and op == want_op:
        return True
    if lhs == c and rhs == a and SWAP[op] == want_op:
        return True
    return False


def _ok_summary(F, g):
    """For a local helper returning Result<&mut [T], ()> / Option<&mut [T]> (e.g. `trim_scratch`):
    the relations (over g's own parameters) that hold on every path building Ok/Some, and how the
    payload is derived. Returns (rels, payload) or None."""
    rt = g.tys(0)
    if not (rt.startswith("std::result::Result<") or rt.startswith("std::option::Option<")):
        return None
    usizes = [i for i in range(1, g.argc + 1) if g.tys(i) == "usize"]
    state = {0: frozenset()}
    work = [0]
    while work:
        bi = work.pop()
        st = state[bi]
        outs = []
        ei = _switch_edges(F, g, bi, usizes)
        if ei:
            for (tgt, op, lhs, rhs, truth) in ei:
                outs.append((tgt, frozenset(st | {_norm(op, lhs, rhs, truth)})))
        else:
            for s_ in g.succ(bi):
                outs.append((s_, st))
        for tgt, ns in outs:
            old = state.get(tgt)
            new = ns if old is None else (old & ns)
            if old is None or new != old:
                state[tgt] = new
                work.append(tgt)
    rels = None
    payload = None
    for bi, si, n in g.iter_nodes():
        if n["k"] == "=" and n["p"] == [0] and n["r"]["k"] == "agg" and n["r"].get("vname") in ("Ok", "Some") and bi in state:
            rels = state[bi] if rels is None else (rels & state[bi])
            payload = g.root(n["r"]["ops"][0]) if n["r"]["ops"] else None
    if rels is None:
        return None
    return rels, payload


def _ok_edge_facts(F, b, bi, usizes):
    """If block bi switches on the discriminant of a Result/Option/ControlFlow obtained from a local
    helper (directly or through `?`), return (ok_target_block, callee body, call terminator)."""
    t = b.blocks[bi]["t"]
    if t["k"] != "switch":
        return None
    r = b.root(t["o"])
    if not (r[0] == "other" and r[1] and r[1].get("k") == "=" and r[1]["r"]["k"] == "discr"):
        return None
    src = b.root({"p": [r[1]["r"]["p"][0]]})
    via_try = False
    if src[0] == "call":
        c = F.callee_of(src[2])
        if c and c["p"].endswith("Try::branch") and src[2]["args"]:
            via_try = True
            src = b.root(src[2]["args"][0])
    if src[0] != "call":
        return None
    c = F.callee_of(src[2])
    if not c or not c["local"]:
        return None
    g = F.bodies.get(c.get("res", c["id"]))
    if g is None:
        return None
    ok_val = 0  # Ok / Continue are variant 0; Option::Some is variant 1
    if g.tys(0).startswith("std::option::Option<") and not via_try:
        ok_val = 1
    tgt = None
    for val, tg in t["cases"]:
        if val == ok_val:
            tgt = tg
    if tgt is None and ok_val == 1:
        tgt = t["otherwise"]
    if tgt is None:
        return None
    return tgt, g, src[2]


def _subst_rel(F, b, rel, g, call, usizes):
    """Translate a relation over helper g's parameters into the caller's terms."""
    def tr(x):
        if x is None:
            return None
        if x[0] == "len":
            rr = b.root(call["args"][x[1] - 1])
            return ("len", rr[1]) if rr[0] == "param" else None
        if x[0] == "param":
            return _classify_operand(F, b, call["args"][x[1] - 1], usizes)
        if x[0] == "const":
            return x
        return None
    return (rel[0], tr(rel[1]), tr(rel[2]))


def r_helper(F, cfg):
    R = Result("R-HELPER", "validators reject short scratch, unequal lengths and remainders on every path to Ok; every chunk is visited; scratch is trimmed")
    validators = find_validators(F)
    R.metric("validators", len(validators))
    for vid, b in sorted(validators.items()):
        slices, usizes, fns, other = _param_shape(F, b)
        has_scratch = len(usizes) == 2
        data = [s[0] for s in (slices[:-1] if has_scratch else slices)]
        scratch = slices[-1][0] if has_scratch else None
        chunk = usizes[0]
        required = usizes[1] if has_scratch else None
        unroll = len(fns) == 2
        size = ("mul", chunk, 2) if unroll else ("param", chunk)
        need = {"NOREM"}
        if has_scratch:
            need.add("SCRATCH")
        if len(data) == 2:
            need.add("EQLEN")
        nb = len(b.blocks)
        TOP = None
        state = {0: frozenset()}
        work = [0]
        edge_info = {}
        ok_info = {}
        for bi in range(nb):
            edge_info[bi] = _switch_edges(F, b, bi, usizes)
            ok_info[bi] = _ok_edge_facts(F, b, bi, usizes) if not edge_info[bi] else None

        def gen(rel):
            g = set()
            if rel[1] is None or rel[2] is None:
                return g
            if has_scratch and _holds(rel, "Ge", ("len", scratch), ("param", required)):
                g.add("SCRATCH")
            if len(data) == 2 and _holds(rel, "Eq", ("len", data[0]), ("len", data[1])):
                g.add("EQLEN")
            for d in data[:1]:
                if _holds(rel, "Eq", ("len", d), ("const", 0)):
                    g.add("NOREM0")
                if _holds(rel, "Eq", ("len", d), ("param", chunk)):
                    g.add("REM1")
                # L mod size == 0  /  L mod (2*chunk) == chunk
                if _holds(rel, "Eq", ("rem", ("len", d), size), ("const", 0)):
                    g.add("MODOK")
                if unroll and _holds(rel, "Eq", ("rem", ("len", d), size), ("param", chunk)):
                    g.add("MOD1")
            return g

        def block_transfer(bi, st):
            st = set(st)
            for s in b.blocks[bi]["s"]:
                if s["k"] == "=" and s["p"] == [data[0]]:
                    st -= {"NOREM0", "REM1", "CALLED1"}
            t = b.blocks[bi]["t"]
            if t["k"] == "call":
                c = F.callee_of(t)
                if c and c["p"].endswith("FnMut::call_mut"):
                    fr = b.root(t["args"][0])
                    if fr[0] == "param" and fr[1] == fns[-1] and ("REM1" in st or "MOD1" in st):
                        tup = b.root(t["args"][1])
                        if tup[0] == "agg":
                            roots = [b.root(o) for o in tup[3]["r"]["ops"]]
                            if all(("param", d) in roots for d in data):
                                st.add("CALLED1")
            return frozenset(st)

        while work:
            bi = work.pop()
            st = block_transfer(bi, state[bi])
            succs = []
            ei = edge_info[bi]
            if ei:
                for (tgt, op, lhs, rhs, truth) in ei:
                    rel = _norm(op, lhs, rhs, truth)
                    succs.append((tgt, frozenset(st | gen(rel))))
            elif ok_info[bi]:
                tgt_ok, g, call = ok_info[bi]
                summ = _ok_summary(F, g)
                extra = set()
                if summ:
                    for rel in summ[0]:
                        extra |= gen(_subst_rel(F, b, rel, g, call, usizes))
                for s_ in b.succ(bi):
                    succs.append((s_, frozenset(st | extra) if s_ == tgt_ok else st))
            else:
                for s in b.succ(bi):
                    succs.append((s, st))
            for tgt, ns in succs:
                old = state.get(tgt, TOP)
                new = ns if old is TOP else (old & ns)
                if old is TOP or new != old:
                    state[tgt] = new
                    work.append(tgt)
        oks = 0
        for bi, si, n in b.iter_nodes():
            if n["k"] == "=" and n["p"] == [0] and n["r"]["k"] == "agg" and n["r"].get("vname") == "Ok":
                if bi not in state:
                    continue
                oks += 1
                st = state[bi]
                for cl in sorted(need):
                    if cl == "NOREM":
                        sat = "NOREM0" in st or "MODOK" in st or (("REM1" in st or "MOD1" in st) and "CALLED1" in st)
                    else:
                        sat = cl in st
                    if sat:
                        R.ok({"validator": b.name, "ok_block": bi, "class": cl, "facts": sorted(st)}, nontrivial=True, sample_cap=10)
                    else:
                        what = {"SCRATCH": "scratch.len() >= required_scratch", "EQLEN": "the two data lengths are equal",
                                "NOREM": "no unprocessed remainder"}[cl]
                        R.violation("helper:%s:%s" % (b.name, cl), b.where(n),
                                    "%s can return Ok on a path that never established that %s" % (b.name, what))
        # the validator's result may also be the result of a local helper called in tail position
        # (`expect_no_remainder(buffer.len())`): Ok then carries the relations of that helper's Ok paths
        for bi, t in b.calls():
            if t.get("d") != [0] or bi not in state:
                continue
            c = F.callee_of(t)
            if c and c["p"].endswith("FromResidual::from_residual"):
                continue    # the Err arm of `?`: the residual of a Result is always Err
            g = F.bodies.get(c.get("res", c["id"])) if c and c.get("local") else None
            summ = _ok_summary(F, g) if g is not None else None
            if summ is None:
                R.violation("helper:%s:opaque-result" % b.name, b.where(t),
                            "%s returns the result of %s, whose Ok paths cannot be summarised" % (b.name, c["p"] if c else "an indirect call"))
                oks += 1
                continue
            oks += 1
            st = set(block_transfer(bi, state[bi]))
            for rel in summ[0]:
                st |= gen(_subst_rel(F, b, rel, g, t, usizes))
            for cl in sorted(need):
                if cl == "NOREM":
                    sat = "NOREM0" in st or "MODOK" in st or (("REM1" in st or "MOD1" in st) and "CALLED1" in st)
                else:
                    sat = cl in st
                if sat:
                    R.ok({"validator": b.name, "ok_via": g.name, "class": cl, "facts": sorted(st)}, nontrivial=True, sample_cap=10)
                else:
                    what = {"SCRATCH": "scratch.len() >= required_scratch", "EQLEN": "the two data lengths are equal",
                            "NOREM": "no unprocessed remainder"}[cl]
                    R.violation("helper:%s:%s" % (b.name, cl), b.where(t),
                                "%s can return Ok (through %s) on a path that never established that %s" % (b.name, g.name, what))
        if oks == 0:
            R.violation("helper:%s:no-ok" % b.name, b.where(), "%s never returns Ok" % b.name)
        _loop_shape(F, b, R, data, scratch, chunk, required, fns, unroll, usizes)
    return R


def _loop_shape(F, b, R, data, scratch, chunk, required, fns, unroll, usizes):
    """Inside the chunk loop: the loop runs to exhaustion (guard `len(buf) >= size` on either
    polarity, or a counted loop over `len(buf) / size`); each data slice is split at `size`, the
    parameter is re-assigned to the tail, and the callable receives the heads (+ trimmed scratch)."""
    name = b.name
    size = ("mul", chunk, 2) if unroll else ("param", chunk)
    sizetxt = "2*chunk_size" if unroll else "chunk_size"
    guard = None
    for bi in range(len(b.blocks)):
        for (tgt, op, lhs, rhs, truth) in _switch_edges(F, b, bi, usizes):
            rel = _norm(op, lhs, rhs, truth)
            if lhs is not None and rhs is not None and _holds(rel, "Ge", ("len", data[0]), size):
                guard = "len(buffer) >= " + sizetxt
    if guard is None:
        # counted loop: for _ in 0..(len / size)
        for bi, t in b.calls():
            c = F.callee_of(t)
            if c and c["p"].endswith("IntoIterator::into_iter") and t["args"]:
                r = b.root(t["args"][0])
                if r[0] == "agg" and r[3]["r"].get("adt", "").endswith("ops::Range") and len(r[3]["r"]["ops"]) == 2:
                    lo = _classify_operand(F, b, r[3]["r"]["ops"][0], usizes)
                    hi = _classify_operand(F, b, r[3]["r"]["ops"][1], usizes)
                    if lo == ("const", 0) and hi == ("div", ("len", data[0]), size):
                        guard = "counted loop over len(buffer) / " + sizetxt
    if guard is None:
        R.violation("loop:%s:guard" % name, b.where(), "%s: the chunk loop does not run to exhaustion (no `len(buffer) >= %s` guard and no counted loop over len/%s)" % (name, sizetxt, sizetxt))
    else:
        R.ok({"validator": name, "loop": guard}, nontrivial=True)
    loop_fn = fns[0]
    loop_calls = 0
    for bi, t in b.calls():
        c = F.callee_of(t)
        if not (c and c["p"].endswith("FnMut::call_mut")):
            continue
        fr = b.root(t["args"][0])
        if fr[0] != "param":
            continue
        tup = b.root(t["args"][1])
        if tup[0] != "agg":
            R.violation("loop:%s:args" % name, b.where(t), "%s: cannot see the argument tuple of the chunk callable" % name)
            continue
        ops = tup[3]["r"]["ops"]
        if fr[1] == loop_fn and (unroll or len(fns) == 1):
            loop_calls += 1
            for k, d in enumerate(data):
                r = b.root(ops[k])
                good = False
                if r[0] == "field" and r[2] == (("f", 0),) and r[1][0] == "call":
                    sc = r[1][2]
                    c2 = F.callee_of(sc)
                    if c2 and ("split_at" in c2["p"]) and b.root(sc["args"][0]) == ("param", d) and \
                            _classify_operand(F, b, sc["args"][1], usizes) == size:
                        good = True
                        re_ok = False
                        for (dbi, dsi, dn) in b.whole_defs(d):
                            if dsi != "t":
                                rr = b.root(dn["r"]["o"]) if dn["r"]["k"] == "use" else b.root({"p": dn["r"]["p"]}) if dn["r"]["k"] == "ref" else None
                                if rr and rr[0] == "field" and rr[2] == (("f", 1),) and rr[1][0] == "call" and rr[1][2] is sc:
                                    re_ok = True
                        if not re_ok:
                            R.violation("loop:%s:advance:%d" % (name, k), b.where(sc), "%s: data slice %d is not advanced to the tail of its split" % (name, k + 1))
                if not good:
                    R.violation("loop:%s:head:%d" % (name, k), b.where(t), "%s: chunk callable argument %d is not the head of split_at(buffer, %s)" % (name, k + 1, sizetxt))
                else:
                    R.ok(None, nontrivial=True)
        # R-TRIM: the scratch operand is scratch[..required_scratch]
        if scratch is not None:
            trimmed = _is_trimmed(F, b, ops[len(data)], scratch, required, usizes) if len(ops) > len(data) else False
            if trimmed:
                R.ok({"validator": name, "scratch_operand": "scratch[..required_scratch]"}, nontrivial=True)
            else:
                R.violation("trim:%s" % name, b.where(t), "%s: the scratch handed to the chunk callable is not trimmed to required_scratch" % name)
    if loop_calls == 0:
        R.violation("loop:%s:nocall" % name, b.where(), "%s: the chunk callable is never invoked in the loop" % name)


def _is_trimmed(F, b, operand, scratch, required, usizes, depth=0):
    """Is the operand `scratch[..required]` (index, split_at_mut(..).0), possibly produced by a local
    helper (`trim_scratch(scratch, required)?`) whose Ok payload is exactly that?"""
    if depth > 3:
        return False
    r = b.root(operand)
    if r[0] == "call":
        c2 = F.callee_of(r[2])
        if c2 and ("index_mut" in c2["p"] or "get_unchecked_mut" in c2["p"]):
            a0 = b.root(r[2]["args"][0])
            a1 = b.root(r[2]["args"][1])
            if a0 == ("param", scratch) and a1[0] == "agg" and a1[3]["r"].get("adt", "").endswith("RangeTo"):
                if b.root(a1[3]["r"]["ops"][0]) == ("param", required):
                    return True
    if r[0] == "field" and r[1][0] == "call":
        call = r[1][2]
        c2 = F.callee_of(call)
        path = r[2]
        if c2 and "split_at_mut" in c2["p"] and path == (("f", 0),) and b.root(call["args"][0]) == ("param", scratch) and \
                b.root(call["args"][1]) == ("param", required):
            return True
        # payload of Ok(..) / Continue(..) of a local helper
        src = call
        if c2 and c2["p"].endswith("Try::branch") and call["args"]:
            rr = b.root(call["args"][0])
            if rr[0] == "call":
                src = rr[2]
                c2 = F.callee_of(src)
        if c2 and c2["local"] and path and path[0][0] == "dc":
            g = F.bodies.get(c2.get("res", c2["id"]))
            summ = _ok_summary(F, g) if g is not None else None
            if summ and summ[1] is not None:
                # payload in g's terms: must be g's slice parameter trimmed to g's usize parameter
                gs = [i for i in range(1, g.argc + 1) if g.ty(i)["k"] == "ref"]
                gu = [i for i in range(1, g.argc + 1) if g.tys(i) == "usize"]
                if len(gs) == 1 and len(gu) == 1:
                    pay = None
                    for bi, si, n in g.iter_nodes():
                        if n["k"] == "=" and n["p"] == [0] and n["r"]["k"] == "agg" and n["r"].get("vname") in ("Ok", "Some") and n["r"]["ops"]:
                            pay = n["r"]["ops"][0]
                    if pay is not None and _is_trimmed(F, g, pay, gs[0], gu[0], gu, depth + 1):
                        if b.root(src["args"][gs[0] - 1]) == ("param", scratch) and b.root(src["args"][gu[0] - 1]) == ("param", required):
                            return True
    return False


# --------------------------------------------------------------------------- R-ERRSINK
def r_errsink(F, cfg):
    R = Result("R-ERRSINK", "every Err of a validator reaches a cold panic function that asserts each cause")
    validators = find_validators(F)
    helpers = find_helpers(F, validators)
    base = {k: h for k, h in helpers.items() if not h["wrapper_of"]}
    R.metric("helpers", len(base))
    err_fns = {}
    for hid, h in sorted(base.items()):
        b = h["body"]
        bi, t = h["call"]
        vb = validators[h["validator"]]
        # arguments forwarded in order
        fwd = all(b.root(a) == ("param", k + 1) for k, a in enumerate(t["args"])) and len(t["args"]) == b.argc == vb.argc
        if not fwd:
            R.violation("errsink:%s:forward" % b.name, b.where(t), "%s does not forward its parameters unchanged to %s" % (b.name, vb.name))
        # path-must: from the validate call to any return, either the not-Err edge or an error-fn call
        res_local = t["d"][0]
        start = t["t"]
        sink_calls = []
        # find is_err(result) switch
        safe_edges = set()
        for sbi in range(len(b.blocks)):
            st = b.blocks[sbi]["t"]
            if st["k"] == "switch":
                r = b.root(st["o"])
                if r[0] == "call":
                    c = F.callee_of(r[2])
                    if c and c["p"].endswith("::is_err") and b.root(r[2]["args"][0]) in (("call", bi, t),):
                        for val, tgt in st["cases"]:
                            if val == 0:
                                safe_edges.add((sbi, tgt))
                    if c and c["p"].endswith("::is_ok") and b.root(r[2]["args"][0]) in (("call", bi, t),):
                        safe_edges.add((sbi, st["otherwise"]))
                # match / if-let on the discriminant of the (possibly moved) result: every edge but the Err one is safe
                if r[0] == "other" and r[1] and r[1].get("k") == "=" and r[1]["r"]["k"] == "discr":
                    src = b.root({"p": [r[1]["r"]["p"][0]]})
                    if src[0] == "call" and src[2] is t:
                        explicit = {val for val, tgt in st["cases"]}
                        for val, tgt in st["cases"]:
                            if val != 1:
                                safe_edges.add((sbi, tgt))
                        if 1 in explicit:
                            safe_edges.add((sbi, st["otherwise"]))
        seen = set()
        stack = [start]
        leak = None
        while stack:
            x = stack.pop()
            if x in seen:
                continue
            seen.add(x)
            tt = b.blocks[x]["t"]
            if tt["k"] == "return":
                leak = x
                break
            if tt["k"] == "call":
                c = F.callee_of(tt)
                if c and c["local"] and c["id"] not in validators and _is_error_fn(F, c["id"]):
                    sink_calls.append((x, tt))
                    continue  # path is covered by the sink (R-ERRSINK part 2 shows it panics for every cause)
            for s in b.succ(x):
                if (x, s) in safe_edges:
                    continue
                stack.append(s)
        if leak is not None:
            R.violation("errsink:%s:leak" % b.name, b.where(b.blocks[leak]["t"]), "%s can return after a failed validation without reaching its panic function" % b.name)
        elif not sink_calls:
            R.violation("errsink:%s:nosink" % b.name, b.where(), "%s has no error sink on the Err path" % b.name)
        else:
            R.ok({"helper": b.name, "sink": F.callee_of(sink_calls[0][1])["p"]}, nontrivial=True)
        # arguments of the sink: (chunk_size, len(data)..., required|0, len(scratch)|0)
        slices, usizes, fns, other = _param_shape(F, b)
        ndata = len(slices) - (1 if h["scratch"] else 0)
        for (x, tt) in sink_calls:
            c = F.callee_of(tt)
            eb = F.bodies[c["id"]]
            err_fns.setdefault(c["id"], []).append((b, h))
            exp = [("param", usizes[0])] + [("len", slices[k][0]) for k in range(ndata)]
            if h["scratch"]:
                exp += [("param", usizes[1]), ("len", slices[-1][0])]
            else:
                exp += [("const", 0), ("const", 0)]
            got = [_classify_operand(F, b, a, usizes) for a in tt["args"]]
            if got != exp:
                R.violation("errsink:%s:args" % b.name, b.where(tt), "%s passes %s to %s, expected %s" % (b.name, got, eb.name, exp))
            else:
                R.ok(None, nontrivial=True)
            want_two = ndata == 2
            if (eb.argc == 5) != want_two:
                R.violation("errsink:%s:kind" % b.name, b.where(tt), "%s reports through %s which has the wrong arity for %d data buffers" % (b.name, eb.name, ndata))
    # part 2: each error fn asserts each cause
    R.metric("error_fns", len(err_fns))
    for eid, users in sorted(err_fns.items()):
        eb = F.bodies[eid]
        rels = _panic_guards(F, eb)
        two = eb.argc == 5
        P = lambda i: ("param", i)
        if two:
            expected_len, a_in, a_out, e_scr, a_scr = 1, 2, 3, 4, 5
        else:
            expected_len, a_in, e_scr, a_scr = 1, 2, 3, 4
        causes = {
            "short-or-remainder": [("RemEq0", P(a_in), P(expected_len))],
            "short-scratch": [("Ge", P(a_scr), P(e_scr))],
        }
        if two:
            causes["unequal-lengths"] = [("Eq", P(a_in), P(a_out))]
        for cname, alts in sorted(causes.items()):
            hit = False
            for (op, x, y) in alts:
                for rel in rels:
                    if op == "RemEq0":
                        if rel[1] and rel[1][0] == "rem" and _holds(rel, "Eq", ("rem", x, y), ("const", 0)):
                            hit = True
                        # a remainder on the output length is just as good when equality is asserted
                    elif _holds(rel, op, x, y):
                        hit = True
            if hit:
                R.ok({"error_fn": eb.name, "cause": cname, "asserted": True}, nontrivial=True)
            else:
                R.violation("errfn:%s:%s" % (eb.name, cname), eb.where(), "%s does not assert the cause '%s': a failed validation could return normally" % (eb.name, cname))
    return R


def _all_usize(b):
    return all(b.tys(i) == "usize" for i in range(1, b.argc + 1))


def _is_error_fn(F, fid, depth=0):
    """A cold error function: all parameters usize, and it (or the all-usize helpers it calls) can panic."""
    b = F.bodies.get(fid)
    if b is None or b.kind != "Fn" or not _all_usize(b) or depth > 3:
        return False
    for bi, t in b.calls():
        c = F.callee_of(t)
        if is_panic_callee(c) and t.get("t") is None:
            return True
        if c and c["local"] and _is_error_fn(F, c.get("res", c["id"]), depth + 1):
            return True
    return False


def _panic_guards(F, b, depth=0):
    """Relations that must HOLD for the function not to panic: for every switch where one edge
    leads (without further branching) to a diverging panic call, the relation of the other edge;
    plus, through calls of all-usize helper functions, their guards translated to this function's
    parameters."""
    usizes = list(range(1, b.argc + 1))
    out = []

    def diverges(x, d=0):
        if d > 12:
            return False
        t = b.blocks[x]["t"]
        if t["k"] == "call":
            c = F.callee_of(t)
            if t.get("t") is None:
                return is_panic_callee(c)
            return diverges(t["t"], d + 1)
        if t["k"] in ("goto", "drop"):
            return diverges(t["t"], d + 1)
        return False
    for bi in range(len(b.blocks)):
        edges = _switch_edges(F, b, bi, usizes)
        if len(edges) != 2:
            continue
        for (tgt, op, lhs, rhs, truth) in edges:
            other = [e for e in edges if e[0] != tgt]
            if other and diverges(other[0][0]):
                out.append(_norm(op, lhs, rhs, truth))
    if depth < 3:
        for bi, t in b.calls():
            c = F.callee_of(t)
            if not c or not c["local"]:
                continue
            g = F.bodies.get(c.get("res", c["id"]))
            if g is None or g.kind != "Fn" or not _all_usize(g) or g.id == b.id:
                continue
            amap = {}
            for k, a in enumerate(t["args"]):
                amap[k + 1] = _classify_operand(F, b, a, usizes)

            def tr(x):
                if x is None:
                    return None
                if x[0] == "param":
                    return amap.get(x[1])
                if x[0] == "rem":
                    return ("rem", tr(x[1]), tr(x[2]))
                return x
            for rel in _panic_guards(F, g, depth + 1):
                out.append((rel[0], tr(rel[1]), tr(rel[2])))
    return out


# --------------------------------------------------------------------------- R-ZEROLEN
def r_zerolen(F, cfg):
    """Length-0 transforms: every helper returns before validation when chunk_size == 0 (the
    validators' `while len >= chunk_size` loop would never terminate for chunk_size 0)."""
    R = Result("R-ZEROLEN", "a zero-length transform returns before the chunk loop: the validator call is dominated by chunk_size != 0")
    validators = find_validators(F)
    helpers = find_helpers(F, validators)
    base = {k: h for k, h in helpers.items() if not h["wrapper_of"]}
    R.metric("helpers", len(base))
    for hid, h in sorted(base.items()):
        b = h["body"]
        bi, t = h["call"]
        slices, usizes, fns, other = _param_shape(F, b)
        chunk = usizes[0]
        dom = b.dominators().get(bi, set())
        guarded = False
        for d in dom:
            for (tgt, op, lhs, rhs, truth) in _switch_edges(F, b, d, usizes):
                if lhs is None or rhs is None:
                    continue
                rel = _norm(op, lhs, rhs, truth)
                if (tgt in dom or tgt == bi) and (_holds(rel, "Ne", ("param", chunk), ("const", 0)) or _holds(rel, "Gt", ("param", chunk), ("const", 0))
                                                    or _holds(rel, "Ge", ("param", chunk), ("const", 1))):
                    others = [e for e in _switch_edges(F, b, d, usizes) if e[0] != tgt]
                    if all(not (o[0] in dom or o[0] == bi) for o in others):
                        guarded = True
        if guarded:
            R.ok({"helper": b.name, "guard": "chunk_size != 0 dominates the validator call"}, nontrivial=True)
        else:
            R.violation("zerolen:%s" % b.name, b.where(t), "%s reaches %s with chunk_size == 0: the chunk loop `while len >= 0` never terminates for a length-0 transform"
                        % (b.name, validators[h["validator"]].name))
    return R
