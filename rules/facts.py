"""Loader and helpers for the fact file written by rfv-driver (one JSON record per line)."""
import json
from collections import defaultdict


class Body:
    __slots__ = ("r", "F", "id", "name", "kind", "blocks", "locals", "argc", "_defs", "_preds",
                 "_dom", "_uses")

    def __init__(self, rec, facts):
        self.r = rec
        self.F = facts
        self.id = rec["id"]
        self.name = rec["name"]
        self.kind = rec["kind"]
        self.blocks = rec["blocks"]
        self.locals = rec["locals"]
        self.argc = rec["argc"]
        self._defs = None
        self._preds = None
        self._dom = None
        self._uses = None

    # ---- basic accessors
    def get(self, k, d=None):
        return self.r.get(k, d)

    def ty(self, local):
        return self.F.types[self.locals[local]]

    def tys(self, local):
        return self.F.types[self.locals[local]]["s"]

    @property
    def file(self):
        return self.r.get("file", "?")

    @property
    def line(self):
        return self.r.get("l", 0)

    def where(self, node=None):
        """file:line for a statement/terminator of this body (macro call site preferred)."""
        if node is None:
            return "%s:%s" % (self.file, self.line)
        if "cl" in node:
            return "%s:%s" % (node.get("cf", self.file), node["cl"])
        return "%s:%s" % (self.file, node.get("l", self.line))

    def var_name(self, local):
        for n, p in self.r.get("names", []):
            if p == [local]:
                return n
        return "_%d" % local

    # ---- CFG
    def succ(self, bi, cleanup=False):
        t = self.blocks[bi]["t"]
        k = t["k"]
        out = []
        if k == "goto":
            out = [t["t"]]
        elif k == "switch":
            out = [c[1] for c in t["cases"]] + [t["otherwise"]]
        elif k in ("call", "drop", "assert"):
            if t.get("t") is not None:
                out = [t["t"]]
            if cleanup and "u" in t:
                out.append(t["u"])
        return out

    def preds(self):
        if self._preds is None:
            p = defaultdict(list)
            for i in range(len(self.blocks)):
                for s in self.succ(i):
                    p[s].append(i)
            self._preds = p
        return self._preds

    def reachable_blocks(self):
        seen = {0}
        st = [0]
        while st:
            b = st.pop()
            for s in self.succ(b):
                if s not in seen:
                    seen.add(s)
                    st.append(s)
        return seen

    def dominators(self):
        """dom[b] = set of blocks dominating b (normal edges only)."""
        if self._dom is not None:
            return self._dom
        reach = sorted(self.reachable_blocks())
        allb = set(reach)
        dom = {b: set(allb) for b in reach}
        dom[0] = {0}
        preds = self.preds()
        changed = True
        while changed:
            changed = False
            for b in reach:
                if b == 0:
                    continue
                ps = [p for p in preds[b] if p in allb]
                if not ps:
                    continue
                new = set.intersection(*[dom[p] for p in ps]) | {b}
                if new != dom[b]:
                    dom[b] = new
                    changed = True
        self._dom = dom
        return dom

    # ---- def-use
    def defs(self, local):
        """All (block, index|'t', node) that write the whole local."""
        if self._defs is None:
            d = defaultdict(list)
            for bi, bb in enumerate(self.blocks):
                for si, s in enumerate(bb["s"]):
                    if s["k"] == "=" :
                        d[s["p"][0]].append((bi, si, s, len(s["p"]) == 1))
                t = bb["t"]
                if t["k"] == "call":
                    d[t["d"][0]].append((bi, "t", t, len(t["d"]) == 1))
            self._defs = d
        return self._defs.get(local, [])

    def whole_defs(self, local):
        return [(bi, si, n) for (bi, si, n, whole) in self.defs(local) if whole]

    def iter_nodes(self):
        for bi, bb in enumerate(self.blocks):
            for si, s in enumerate(bb["s"]):
                yield bi, si, s
            yield bi, "t", bb["t"]

    def calls(self):
        for bi, bb in enumerate(self.blocks):
            t = bb["t"]
            if t["k"] in ("call", "tailcall"):
                yield bi, t

    # ---- provenance: follow copies / reborrows back to a root
    def root(self, operand, depth=0, through_calls=()):
        """Follow an operand back through copies, moves, reborrows (&*x, &mut *x), pointer
        casts, derefs and fields of locally built aggregates. Returns a tuple describing the root:
          ('param', n)            n in 1..argc (also when the parameter is reassigned: see is_reassigned)
          ('const', constdict)
          ('call', bi, term)      result of the call terminating block bi
          ('agg', bi, si, stmt)
          ('field', root, path)   a projection that cannot be looked through
          ('multi', local)        several definitions
          ('other', node)
        """
        if depth > 80:
            return ("other", None)
        if "c" in operand:
            c = operand["c"]
            if c.get("k") == "unev" and isinstance(c.get("promoted"), int):
                pv = self.promoted_value(c["promoted"])
                if pv is not None:
                    return ("const", pv)
            elif c.get("k") == "unev" and "v" not in c and c.get("p"):
                lit = self.F.const_literal(c["p"])
                if lit is not None:
                    d = dict(lit)
                    d.setdefault("t", c.get("t"))
                    return ("const", d)
            return ("const", c)
        if "p" not in operand:
            return ("other", operand)
        p = operand["p"]
        local = p[0]
        proj = [e for e in p[1:] if e != "d"]
        if proj:
            # field of a locally built aggregate?
            e = proj[0]
            if isinstance(e, list) and e[0] == "f" and not (1 <= local <= self.argc):
                ds = self.whole_defs(local)
                if len(ds) == 1 and ds[0][1] != "t":
                    r = ds[0][2]["r"]
                    if r["k"] == "agg" and e[1] < len(r["ops"]) and r.get("ak") in ("tuple", "adt", "closure", "array"):
                        sub = r["ops"][e[1]]
                        if len(proj) == 1:
                            return self.root(sub, depth + 1, through_calls)
                        if "p" in sub:
                            return self.root({"p": sub["p"] + proj[1:]}, depth + 1, through_calls)
                    if r["k"] == "use" and "p" in r["o"]:
                        return self.root({"p": r["o"]["p"] + proj}, depth + 1, through_calls)
                    if r["k"] in ("ref", "rawptr"):
                        return self.root({"p": r["p"] + proj}, depth + 1, through_calls)
            base = self.root({"p": [local]}, depth + 1, through_calls)
            return ("field", base, tuple(tuple(e) if isinstance(e, list) else e for e in proj))
        if 1 <= local <= self.argc:
            return ("param", local)
        ds = self.whole_defs(local)
        if len(ds) != 1:
            return ("multi", local) if ds else ("undef", local)
        bi, si, n = ds[0]
        if si == "t":
            f = n["f"].get("c", {})
            cid = f.get("id")
            if cid in through_calls and n["args"]:
                return self.root(n["args"][0], depth + 1, through_calls)
            if cid == "core::clone::Clone::clone" and n["args"] and f.get("a") and isinstance(f["a"][0], int) \
                    and self.F.types[f["a"][0]]["k"] == "prim":
                # cloning a primitive is a copy
                return self.root(n["args"][0], depth + 1, through_calls)
            return ("call", bi, n)
        r = n["r"]
        k = r["k"]
        if k == "use":
            return self.root(r["o"], depth + 1, through_calls)
        if k in ("ref", "rawptr"):
            return self.root({"p": r["p"]}, depth + 1, through_calls)
        if k == "cast" and (r["ck"] in ("PtrToPtr", "Transmute") or r["ck"].startswith("PointerCoercion")):
            return self.root(r["o"], depth + 1, through_calls)
        if k == "agg":
            return ("agg", bi, si, n)
        return ("other", n)

    def expr(self, operand, depth=0, rich=False):
        """Expression tree of an operand (def-use unfolded, depth-limited):
          ('param', i) | ('const', value-or-string, type string) | ('bin', op, a, b) | ('un', op, a)
          | ('cast', kind, to_type, a) | ('call', callee path, [args], [type args], resolved path)
          | ('field', base, path) | ('agg', kind/name, [ops]) | ('multi', local) | ('?',)"""
        if depth > 40:
            return ("?",)
        r = self.root(operand)
        k = r[0]
        if k == "param":
            return ("param", r[1])
        if k == "const":
            c = r[1]
            ty = self.F.ts(c["t"]) if "t" in c else "?"
            if rich:
                return ("const", c.get("v", c.get("s", c.get("p"))), ty, c)
            return ("const", c.get("v", c.get("s", c.get("p"))), ty)
        if k == "call":
            t = r[2]
            c = self.F.callee_of(t) or {}
            targs = [self.F.ts(a) if isinstance(a, int) else str(a) for a in c.get("a", [])]
            if rich:
                return ("call", c.get("p", "?"), [self.expr(a, depth + 1, rich) for a in t["args"]], targs, c.get("resp", c.get("p", "?")), r[1])
            return ("call", c.get("p", "?"), [self.expr(a, depth + 1, rich) for a in t["args"]], targs, c.get("resp", c.get("p", "?")))
        if k == "agg":
            rv = r[3]["r"]
            name = rv.get("adt", rv.get("ak")) + (("::" + rv["vname"]) if "vname" in rv else "")
            return ("agg", name, [self.expr(o, depth + 1, rich) for o in rv["ops"]])
        if k == "field":
            base = r[1]
            be = ("param", base[1]) if base[0] == "param" else (base[0],) if base[0] != "call" else \
                ("call", (self.F.callee_of(base[2]) or {}).get("p", "?"), [self.expr(a, depth + 1, rich) for a in base[2]["args"]], [], "")
            if rich and base[0] == "call":
                be = be + (base[1],)
            elif rich and base[0] in ("multi", "undef"):
                be = (base[0], base[1])
            return ("field", be, r[2])
        if k == "other" and r[1] and r[1].get("k") == "=":
            rv = r[1]["r"]
            if rv["k"] == "bin":
                return ("bin", rv["op"], self.expr(rv["a"], depth + 1, rich), self.expr(rv["b"], depth + 1, rich))
            if rv["k"] == "un":
                return ("un", rv["op"], self.expr(rv["a"], depth + 1, rich))
            if rv["k"] == "cast":
                return ("cast", rv["ck"], self.F.ts(rv["to"]), self.expr(rv["o"], depth + 1, rich))
            if rv["k"] == "discr":
                return ("discr", self.expr({"p": rv["p"]}, depth + 1, rich))
            if rich and rv["k"] == "repeat":
                return ("repeat", rv.get("n"))
        if k == "multi":
            return ("multi", r[1])
        if rich and k == "other" and r[1] and r[1].get("k") == "=":
            return ("?", r[1]["r"].get("k"))
        return ("?",)

    def promoted_value(self, idx):
        """`&K` promoted constants: return the constant dict of K when the promoted body is just
        `_1 = const K; _0 = &_1`."""
        try:
            pb = self.r["promoted"][idx]
        except (KeyError, IndexError):
            return None
        vals = {}
        ret = None
        for bb in pb["blocks"]:
            for s in bb["s"]:
                if s["k"] != "=" or len(s["p"]) != 1:
                    return None
                r = s["r"]
                if r["k"] == "use" and "c" in r["o"]:
                    cc = r["o"]["c"]
                    if cc.get("k") == "unev" and "v" not in cc and cc.get("p") and "promoted" not in cc:
                        lit = self.F.const_literal(cc["p"])
                        if lit is not None:
                            cc = lit
                    vals[s["p"][0]] = cc
                elif r["k"] == "ref" and len(r["p"]) == 1 and s["p"] == [0]:
                    ret = r["p"][0]
                elif r["k"] == "agg" and r.get("ak") == "array" and not r["ops"]:
                    vals[s["p"][0]] = {"k": "emptyarray"}
                elif r["k"] == "agg" and r.get("ak") == "adt" and not r["ops"]:
                    # fieldless enum variant / unit struct: `&FftDirection::Forward`
                    vals[s["p"][0]] = {"k": "enum", "adt": r["adt"], "vname": r["vname"], "s": "%s::%s" % (r["adt"], r["vname"])}
                elif r["k"] == "agg" and r.get("ak") == "array" and all("c" in o and "v" in o["c"] for o in r["ops"]):
                    vals[s["p"][0]] = {"k": "array", "vals": [o["c"]["v"] for o in r["ops"]]}
                else:
                    return None
        if ret is not None and ret in vals:
            return vals[ret]
        return None

    def tuple_field_defs(self, local, idx):
        """For a local assigned a tuple aggregate in several places (`let (a, b) = if c { (x, y) } else { (u, v) };`):
        [(block, operand of component idx)] over all its definitions, or None when some definition is not a tuple literal."""
        out = []
        for (bi, si, n) in self.whole_defs(local):
            if si == "t":
                return None
            rv = n["r"]
            if rv["k"] == "agg" and rv.get("ak") == "tuple" and idx < len(rv["ops"]):
                out.append((bi, rv["ops"][idx]))
            elif rv["k"] == "use" and "p" in rv["o"] and len(rv["o"]["p"]) == 1:
                sub = self.tuple_field_defs(rv["o"]["p"][0], idx)
                if sub is None:
                    return None
                out += sub
            else:
                return None
        return out or None

    def is_reassigned(self, param):
        return bool(self.whole_defs(param))


# Items the rules refer to by path. If a refactoring moves one of them to another (private) module, its
# definition path changes although nothing a user or the property cares about did; the loader then
# rewrites the new path to the canonical one (only when the simple name is unique in the crate).
ANCHORS = {
    "FftDirection": "FftDirection", "Fft": "Fft", "Length": "Length", "Direction": "Direction",
    "FftNum": "common::FftNum", "DoubleBuf": "array_utils::DoubleBuf", "LoadStore": "array_utils::LoadStore", "Load": "array_utils::Load",
    "FftCache": "fft_cache::FftCache", "FftPlanner": "plan::FftPlanner", "FftPlannerScalar": "plan::FftPlannerScalar",
    "FftPlannerSse": "sse::sse_planner::FftPlannerSse", "FftPlannerAvx": "avx::avx_planner::FftPlannerAvx",
    "AvxPlannerInternal": "avx::avx_planner::AvxPlannerInternal", "MixedRadixPlan": "avx::avx_planner::MixedRadixPlan",
    "PartialFactors": "math_utils::PartialFactors", "PrimeFactors": "math_utils::PrimeFactors",
    "SseArray": "sse::sse_vector::SseArray", "SseArrayMut": "sse::sse_vector::SseArrayMut", "SseVector": "sse::sse_vector::SseVector",
    "AvxArray": "avx::avx_vector::AvxArray", "AvxArrayMut": "avx::avx_vector::AvxArrayMut", "AvxVector": "avx::avx_vector::AvxVector",
    "AvxVector256": "avx::avx_vector::AvxVector256", "AvxVector128": "avx::avx_vector::AvxVector128",
    "Dft": "algorithm::dft::Dft",
    "compute_twiddle": "twiddles::compute_twiddle", "fill_bluesteins_twiddles": "twiddles::fill_bluesteins_twiddles",
    "workaround_transmute": "array_utils::workaround_transmute", "workaround_transmute_mut": "array_utils::workaround_transmute_mut",
    "prime_butterfly_lens": "sse::sse_prime_butterflies::prime_butterfly_lens",
    "construct_prime_butterfly": "sse::sse_prime_butterflies::construct_prime_butterfly",
}


def _canonicalise(path):
    """Return the fact file text with moved anchor items renamed back to their canonical paths."""
    import re
    text = open(path).read()
    found = {}
    for line in text.split("\n"):
        if not line or line[8:12] not in ("adt\"", "trai", "body", "decl"):
            # cheap prefilter on '{"rec":"xxx'
            if not (line.startswith('{"rec":"adt"') or line.startswith('{"rec":"trait"') or line.startswith('{"rec":"body"')):
                continue
        m = re.match(r'\{"rec":"(adt|trait|body)","id":"[^"]*","name":"([^"]*)"', line)
        if not m:
            continue
        kind, name = m.group(1), m.group(2)
        if kind == "body" and ("<" in name or "{" in name):
            continue
        simple = name.rsplit("::", 1)[-1]
        if simple in ANCHORS:
            found.setdefault(simple, set()).add(name)
    renames = {}
    for simple, names in found.items():
        if len(names) == 1:
            actual = next(iter(names))
            if actual != ANCHORS[simple]:
                renames[actual] = ANCHORS[simple]
    if not renames:
        return text, {}
    for actual, canon in sorted(renames.items(), key=lambda kv: -len(kv[0])):
        text = re.sub(r'(?<![A-Za-z0-9_:])' + re.escape(actual) + r'(?![A-Za-z0-9_])', canon, text)
    return text, renames


class Facts:
    def __init__(self, path):
        self.path = path
        self.consts_raw = {}
        self._const_lit = {}
        self.crate = None
        self.adts = {}
        self.adts_by_name = {}
        self.impls = []
        self.traits = {}
        self.statics = []
        self.decls = []
        self.bodies = {}
        self.surface = []
        self.types = []
        self.end = None
        text, self.renamed_anchors = _canonicalise(path)
        if True:
            for line in text.split("\n"):
                if not line:
                    continue
                r = json.loads(line)
                k = r["rec"]
                if k == "body":
                    self.bodies[r["id"]] = r
                elif k == "constbody":
                    self.consts_raw[r["name"]] = r
                elif k == "adt":
                    self.adts[r["id"]] = r
                    self.adts_by_name[r["name"]] = r
                elif k == "impl":
                    self.impls.append(r)
                elif k == "trait":
                    self.traits[r["name"]] = r
                elif k == "static":
                    self.statics.append(r)
                elif k == "decl":
                    self.decls.append(r)
                elif k == "surface":
                    self.surface = r["items"]
                elif k == "types":
                    self.types = r["tab"]
                elif k == "crate":
                    self.crate = r
                elif k == "end":
                    self.end = r
        if self.end is None or self.crate is None:
            raise RuntimeError("fact file %s is incomplete" % path)
        self.bodies = {k: Body(v, self) for k, v in self.bodies.items()}
        if self.end["bodies"] != len(self.bodies):
            raise RuntimeError("fact file body count mismatch")
        self._callers = None
        self._impl_by_id = {i["id"]: i for i in self.impls}

    # ---- named constants
    def const_literal(self, name):
        """Value of a named constant whose initialiser is a literal: {'v': int} or
        {'k': 'array', 'vals': [...]} (also for `&[..]` / `&'static [usize]` tables)."""
        if name in self._const_lit:
            return self._const_lit[name]
        self._const_lit[name] = None
        rec = self.consts_raw.get(name)
        if rec is None:
            return None
        cb = Body(rec, self)
        r = cb.root({"p": [0]})
        lit = None
        if r[0] == "const":
            c = r[1]
            if "v" in c:
                lit = {"v": c["v"], "t": c.get("t")}
            elif c.get("k") == "array":
                lit = c
        elif r[0] == "agg" and r[3]["r"].get("ak") == "array":
            vals = []
            for o in r[3]["r"]["ops"]:
                rr = cb.root(o)
                if rr[0] == "const" and "v" in rr[1]:
                    vals.append(rr[1]["v"])
                else:
                    vals = None
                    break
            if vals is not None:
                lit = {"k": "array", "vals": vals}
        self._const_lit[name] = lit
        return lit

    # ---- types
    def T(self, tid):
        return self.types[tid]

    def ts(self, tid):
        return self.types[tid]["s"]

    def strip_refs(self, tid):
        t = self.types[tid]
        while t["k"] in ("ref", "ptr"):
            t = self.types[t["t"]]
        return t

    def adt_path(self, tid):
        t = self.strip_refs(tid)
        return t["p"] if t["k"] == "adt" else None

    # ---- impls
    def impl(self, iid):
        return self._impl_by_id.get(iid)

    def trait_impls(self, trait_name):
        return [i for i in self.impls if i.get("trait") == trait_name]

    def impl_self_adt(self, imp):
        t = self.types[imp["self_ty"]]
        return t["p"] if t["k"] == "adt" else None

    def body_of_impl_item(self, imp, name):
        for it in imp["items"]:
            if it["name"] == name:
                return self.bodies.get(it["id"])
        return None

    # ---- lookup
    def methods(self, adt_path, ident):
        """Bodies of inherent/trait methods named `ident` whose Self type is the ADT `adt_path`."""
        out = []
        for b in self.bodies.values():
            if b.r.get("ident") == ident and "self_ty" in b.r:
                t = self.types[b.r["self_ty"]]
                if t["k"] == "adt" and t["p"] == adt_path:
                    out.append(b)
        return sorted(out, key=lambda x: x.id)

    def fn(self, name):
        for b in self.bodies.values():
            if b.name == name:
                return b
        return None

    def length_const(self, tid_or_type):
        """The constant returned by `Length::len` of the ADT type, when it is a constant."""
        from .entry import const_return
        t = self.types[tid_or_type] if isinstance(tid_or_type, int) else tid_or_type
        if t["k"] != "adt":
            return None
        for i in self.impls:
            if i.get("trait") == "Length" and self.types[i["self_ty"]]["k"] == "adt" and self.types[i["self_ty"]]["p"] == t["p"]:
                # impls such as `Butterfly8Avx<f32>`: match the generic args too when both are concrete
                if self.types[i["self_ty"]]["a"] != t["a"] and not self._args_generic(i):
                    continue
                b = self.body_of_impl_item(i, "len")
                if b is not None:
                    return const_return(self, b)
        return None

    def _args_generic(self, imp):
        t = self.types[imp["self_ty"]]
        return any(isinstance(a, int) and self.types[a]["k"] == "param" for a in t["a"])

    # ---- call graph
    @staticmethod
    def callee_of(term):
        f = term["f"]
        c = f.get("c")
        if c and c.get("k") == "fn":
            return c
        return None

    def callers(self):
        """callee id (resolved where possible) -> list of (caller body, bi, term)"""
        if self._callers is None:
            m = defaultdict(list)
            for b in self.bodies.values():
                for bi, t in b.calls():
                    c = self.callee_of(t)
                    if c:
                        m[c.get("res", c["id"])].append((b, bi, t))
                        if "res" in c:
                            m[c["id"]].append((b, bi, t))
            self._callers = m
        return self._callers

    def fn_refs(self):
        """ids of functions mentioned as values (passed as fn items / coerced to fn pointers), i.e.
        anywhere except the callee position of a direct call."""
        if getattr(self, "_fn_refs", None) is None:
            refs = set()

            def scan(o):
                if isinstance(o, dict):
                    c = o.get("c")
                    if isinstance(c, dict) and c.get("k") == "fn":
                        refs.add(c.get("res", c["id"]))
                        refs.add(c["id"])
            for b in self.bodies.values():
                for bi, si, n in b.iter_nodes():
                    if n["k"] == "=":
                        r = n["r"]
                        for k in ("o", "a", "b"):
                            if k in r:
                                scan(r[k])
                        for o in r.get("ops", []):
                            scan(o)
                    elif n["k"] in ("call", "tailcall"):
                        for a in n["args"]:
                            scan(a)
                        if "p" in n["f"]:
                            pass
            self._fn_refs = refs
        return self._fn_refs

    def is_dead(self, body):
        """A crate-private function that is never called and never mentioned as a value."""
        b = self.closure_parent(body) or body
        if b.r.get("reachable") or "trait" in b.r:
            return False
        if self.callers().get(b.id):
            return False
        return b.id not in self.fn_refs()

    def closure_parent(self, body):
        """Walk up to the enclosing fn of a closure body."""
        b = body
        while b is not None and b.kind == "Closure":
            b = self.bodies.get(b.r["parent"])
        return b
