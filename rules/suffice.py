"""R-SUFFICE (C08): the advertised scratch length covers what each inner transform is handed.

For every inner `process_*` call that receives a scratch-derived slice as its scratch (the hand-offs found by
R-SCRATCHKIND's provenance walk), compare symbolically
      len(slice handed over)   >=   inner.get_<kind>_scratch_len()
where the left side is evaluated with A-SYM in the kernel (parameter roles from the validating helpers, `split_at_mut`,
re-slicing, `if`-selected alternatives with their branch conditions) and every field of `self` it mentions -- above all
the advertised length the validator trimmed the scratch to -- is replaced by the *guarded* symbolic value the constructor
stored there (`if a > len { a } else { 0 }`, `max(x, y)` become case splits), with the constructor's calls on the inner
transform renamed to the kernel's (`base_fft.get_inplace_scratch_len()` is the same pure value at both places: inner
transforms are immutable, R-NOCELL).

PROVED     in every case the difference is non-negative for all values of the atoms (A-SYM prover);
REFUTED    a concrete assignment of the independent quantities (own length, each
           inner transform's length and requirements) satisfies every case and path condition and makes the slice
           shorter than the requirement -- a VIOLATION with that assignment as witness (the inner transform then panics with
           'Not enough scratch space' inside a well-shaped call, or the advertised size is simply wrong);
UNDECIDED  everything else (loop-carried lengths, unmodelled buffers, a scratch-relevant condition that was not understood):
           inventoried, never an alarm.  Crate-private wrappers (RadixN, the SIMD types) are judged like exported ones: the
           planners build them over arbitrary planned inner transforms (a Rader base needs 0 < scratch <= len, a Bluestein base
           more than len), so the independent quantities of the model are realisable through the public planners.
"""
from collections import defaultdict
from itertools import product

from .core import Result
from .kbound import kb_for
from .symbound import SymCtx, Poly, Undecided, _P, _sym_roles, _aname
from .scratch import Taint, PROCESS, GETTER_KIND, origin, _inner_fields, _adt_literals, _is_required_scratch

INNER_METHODS = {"Length::len": "len", "Fft::get_inplace_scratch_len": "inplace", "Fft::get_outofplace_scratch_len": "outofplace",
                 "Fft::get_immutable_scratch_len": "immut"}
KIND_METHOD = {"inplace": "inplace", "outofplace": "outofplace", "immut": "immut"}
NEG = {"Gt": "Le", "Lt": "Ge", "Ge": "Lt", "Le": "Gt", "Eq": "Ne", "Ne": "Eq"}


def _strip_deref(e):
    n = 0
    while isinstance(e, tuple) and e[0] == "call" and e[2] and n < 6 and any(e[1].endswith(s) for s in
            ("Deref::deref", "AsRef::as_ref", "Borrow::borrow", "::as_ref", "Clone::clone")):
        e = e[2][0]
        n += 1
    return e


class GCtx(SymCtx):
    def __init__(self, F, K, env, mode):
        SymCtx.__init__(self, F, K, env)
        self.mode = mode            # 'kernel' | 'ctor'
        self.maxdefs = {}
        self.lit_block = None           # ctor mode: block of the struct literal being evaluated
        self.allow_loop_atoms = True    # off while the conditions dominating the literal are read (a loop's own exit test says nothing about scratch)
        self._reach = None
        self.not_understood = False     # some condition on a relevant path could not be expressed: no refutation then
        self.callsite = {}          # callee body id -> (caller body, call terminator, tupled?) : the one calling context being judged

    def _irrelevant_cond(self, b, e):
        """May a dominating condition that could not be expressed be ignored when searching a witness?  Yes when it cannot
        constrain a scratch quantity: it mentions no inner scratch requirement, no slice length and no field of self
        (a direction-equality assert, `gcd(width, height) == 1`, `len.is_power_of_two()`, the exit condition of a
        twiddle-generation loop over a loop-carried counter)."""
        def relevant(x, depth=0):
            if depth > 14 or not isinstance(x, tuple):
                return False
            k = x[0]
            if k == "call":
                if x[1] in INNER_METHODS and x[1] != "Length::len":
                    return True
                if x[1].endswith("<impl [T]>::len") or x[1].endswith("<impl [T]>::is_empty"):
                    return True
                return any(relevant(a, depth + 1) for a in x[2])
            if k == "bin":
                return relevant(x[2], depth + 1) or relevant(x[3], depth + 1)
            if k in ("un", "cast"):
                return relevant(x[-1], depth + 1)
            if k == "discr":
                return relevant(x[1], depth + 1)
            if k == "field":
                return x[1] == ("param", 1) and self.mode == "kernel"
            if k == "multi":
                try:
                    for (c_, p_) in self.symg(b, x):
                        if any(a[0] == "inner" and a[2] != "len" or a[0] == "self" for a in p_.atoms()):
                            return True
                    return False
                except (Undecided, RecursionError):
                    return False        # loop-carried / opaque local: constrains only itself
            return False
        return not relevant(e)

    def _reach_from_lit(self, b):
        if self._reach is None:
            seen = set()
            st = list(b.succ(self.lit_block))
            while st:
                x = st.pop()
                if x in seen:
                    continue
                seen.add(x)
                st.extend(b.succ(x))
            self._reach = seen
        return self._reach

    def inner_atom(self, key, what):
        a = ("inner", key, what)
        if a not in self.info:
            self.info[a] = {"lo": Poly.const(1 if what == "len" else 0), "hi": None}
        return a

    def _arg_sites(self, b, i):
        cs = self.callsite.get(b.id)
        if cs is None:
            return SymCtx._arg_sites(self, b, i)
        cb, t, tupled = cs
        if tupled:
            tup = cb.root(t["args"][1]) if len(t["args"]) > 1 else None
            if tup and tup[0] == "agg" and i - 2 < len(tup[3]["r"]["ops"]):
                return [(cb, tup[3]["r"]["ops"][i - 2])]
            return [(cb, None)]
        if i - 1 < len(t["args"]):
            return [(cb, t["args"][i - 1])]
        return [(cb, None)]

    def getter_atom(self, b, c):
        """`self.method()`: evaluate the callee (closures and helpers merged in) to a polynomial over self's fields,
        slice-field lengths and inner-transform getters; fall back to an opaque atom."""
        from .inline import inlined, any_local_pred
        tgt = self.F.bodies.get(c.get("res") or c["id"])
        if tgt is None or ("g", tgt.id) in self._busy:
            return SymCtx.getter_atom(self, b, c)
        self._busy.add(("g", tgt.id))
        try:
            inl = inlined(self.F, tgt, any_local_pred)
            gv = self.symg(inl, inl.expr({"p": [0]}, rich=True))
            if len(gv) == 1 and not gv[0][0]:
                return gv[0][1]
            raise Undecided("guarded getter")
        except (Undecided, RecursionError):
            return SymCtx.getter_atom(self, b, c)
        finally:
            self._busy.discard(("g", tgt.id))

    def sym(self, b, e, depth=0):
        if isinstance(e, tuple) and e[0] == "bin" and e[1] == "Shl":
            try:
                c = SymCtx.sym(self, b, e[3], depth + 1).const_value()
            except Undecided:
                c = None
            if c is None:
                try:
                    rhs = self.sym(b, e[3], depth + 1)
                    a = ("pow2", rhs.key())
                    if a not in self.info:
                        self.info[a] = {"lo": Poly.const(1), "hi": None}
                    return self.sym(b, e[2], depth + 1) * Poly.atom(a)
                except Undecided:
                    pass
        if isinstance(e, tuple) and e[0] == "call" and len(e[2]) == 2 and (e[1].endswith("cmp::max") or e[1].endswith("Ord::max") or e[1].endswith("cmp::min") or e[1].endswith("Ord::min")):
            # in a condition: an atom m = max(a, b) with  m >= a, m >= b, m <= a + b  (min: m <= a, m <= b)
            is_max = "max" in e[1].rsplit("::", 1)[-1]
            pa = self.sym(b, e[2][0], depth + 1)
            pb = self.sym(b, e[2][1], depth + 1)
            a = ("max" if is_max else "min", pa.key(), pb.key())
            if a not in self.info:
                self.info[a] = {"lo": Poly.const(0), "hi": None}
                self.maxdefs[a] = (pa, pb, is_max)
                m = Poly.atom(a)
                if is_max:
                    self.facts += [m - pa, m - pb, pa + pb - m]
                else:
                    self.facts += [pa - m, pb - m]
            return Poly.atom(a)
        if isinstance(e, tuple) and e[0] == "call" and e[1] in INNER_METHODS and len(e[2]) == 1:
            recv = _strip_deref(e[2][0])
            what = INNER_METHODS[e[1]]
            if recv[0] == "field" and recv[1][0] == "param" and all(x[0] == "f" for x in recv[2]) and (self.mode == "kernel" and self.is_self(b, recv[1])):
                return Poly.atom(self.inner_atom(tuple(x[1] for x in recv[2]), what))
            if self.mode == "ctor" and recv[0] == "param":
                return Poly.atom(self.inner_atom(("ctor", recv[1]), what))
            if self.mode == "ctor" and recv[0] == "multi":
                return Poly.atom(self.inner_atom(("ctorlocal", recv[1]), what))
        if self.mode == "ctor" and isinstance(e, tuple) and e[0] == "multi" and self.lit_block is not None and self.allow_loop_atoms:
            # a loop-carried local (`cross_fft_len *= radix`) read after its loop: one opaque value, provided no assignment
            # of it can still follow the struct literal (all reads we evaluate then see the final value)
            try:
                return SymCtx.sym(self, b, e, depth)
            except Undecided:
                defs = b.whole_defs(e[1])
                if defs and b.tys(e[1]) == "usize" and not any(d[0] in self._reach_from_lit(b) for d in defs):
                    a = ("ctorloop", e[1])
                    if a not in self.info:
                        self.info[a] = {"lo": Poly.const(0), "hi": None}
                    return Poly.atom(a)
                raise
        if self.mode == "ctor" and isinstance(e, tuple) and e[0] == "param":
            a = ("ctorparam", e[1])
            if a not in self.info:
                self.info[a] = {"lo": Poly.const(0), "hi": None}
            return Poly.atom(a)
        return SymCtx.sym(self, b, e, depth)

    # ---- guarded values: [(conds, Poly)]
    def symg(self, b, e, depth=0, seen=()):
        if depth > 14 or not isinstance(e, tuple):
            raise Undecided("depth")
        k = e[0]
        if k == "multi" and self.mode == "ctor" and self.lit_block is not None and self.allow_loop_atoms and depth < 14:
            try:
                return self._symg_multi(b, e, depth, seen)
            except Undecided:
                return [([], self.sym(b, e, depth + 1))]
        if k == "multi":
            return self._symg_multi(b, e, depth, seen)
        return self._symg_rest(b, e, depth, seen)

    def _symg_multi(self, b, e, depth, seen):
        k = e[0]
        if k == "multi":
            if e[1] in seen:
                raise Undecided("variable %s is loop-carried" % b.var_name(e[1]))
            out = []
            for (bi, si, n) in b.whole_defs(e[1]):
                if si == "t":
                    raise Undecided("variable %s assigned from a call" % b.var_name(e[1]))
                rv = n["r"]
                if rv["k"] == "use":
                    sub = self.symg(b, b.expr(rv["o"], rich=True), depth + 1, seen + (e[1],))
                elif rv["k"] == "bin":
                    sub = self.symg(b, ("bin", rv["op"], b.expr(rv["a"], rich=True), b.expr(rv["b"], rich=True)), depth + 1, seen + (e[1],))
                else:
                    raise Undecided("variable %s" % b.var_name(e[1]))
                conds, _ok = self.conditions(b, bi)
                if not _ok:
                    self.not_understood = True
                out += [(c + conds, p) for (c, p) in sub]
            if len(out) > 24:
                raise Undecided("too many cases")
            return out
        raise Undecided("not a multi")

    def _symg_rest(self, b, e, depth, seen):
        k = e[0]
        if k == "call" and len(e[2]) == 2 and (e[1].endswith("cmp::max") or e[1].endswith("Ord::max") or e[1].endswith("cmp::min") or e[1].endswith("Ord::min")):
            is_max = "max" in e[1].rsplit("::", 1)[-1]
            A = self.symg(b, e[2][0], depth + 1, seen)
            B = self.symg(b, e[2][1], depth + 1, seen)
            out = []
            for (ca, pa) in A:
                for (cb, pb) in B:
                    if is_max:
                        out.append((ca + cb + [(pa, "Ge", pb)], pa))
                        out.append((ca + cb + [(pb, "Gt", pa)], pb))
                    else:
                        out.append((ca + cb + [(pa, "Le", pb)], pa))
                        out.append((ca + cb + [(pb, "Lt", pa)], pb))
            if len(out) > 24:
                raise Undecided("too many cases")
            return out
        if k == "bin" and e[1] in ("Add", "AddUnchecked", "AddWithOverflow", "Mul", "MulUnchecked", "MulWithOverflow", "Sub", "SubUnchecked", "SubWithOverflow"):
            A = self.symg(b, e[2], depth + 1, seen)
            B = self.symg(b, e[3], depth + 1, seen)
            out = []
            for (ca, pa) in A:
                for (cb, pb) in B:
                    if e[1].startswith("Add"):
                        out.append((ca + cb, pa + pb))
                    elif e[1].startswith("Mul"):
                        out.append((ca + cb, pa * pb))
                    else:
                        out.append((ca + cb, pa - pb))
            if len(out) > 24:
                raise Undecided("too many cases")
            return out
        if k == "cast" and e[1] == "IntToInt":
            return self.symg(b, e[3], depth + 1, seen)
        if k == "field" and e[1][0] == "multi" and len(e[1]) > 1 and e[2] and e[2][0][0] == "f" and len(e[2]) == 1:
            # component of a tuple assigned in several branches: one guarded case per definition
            defs = b.tuple_field_defs(e[1][1], e[2][0][1])
            if defs:
                out = []
                for (dbi, op) in defs:
                    sub = self.symg(b, b.expr(op, rich=True), depth + 1, seen)
                    conds, _ok = self.conditions(b, dbi)
                    if not _ok:
                        self.not_understood = True
                    out += [(c + conds, p) for (c, p) in sub]
                if len(out) > 24:
                    raise Undecided("too many cases")
                return out
        return [([], self.sym(b, e, depth + 1))]

    def symlen(self, b, e, depth=0):
        if isinstance(e, tuple) and e[0] == "multi":
            # an `if`-selected slice reached without its branch conditions (e.g. through a parameter of a helper):
            # the alternatives are all required for a proof, but a witness could pick an infeasible combination
            self.not_understood = True
        return SymCtx.symlen(self, b, e, depth)

    def symleng(self, b, operand):
        """Guarded length of a slice operand: [(conds, Poly)] (an `if`-selected slice gives one entry per branch)."""
        r = b.root(operand, through_calls=("rustfft::array_utils::workaround_transmute", "rustfft::array_utils::workaround_transmute_mut"))
        if r[0] == "multi":
            out = []
            for (bi, si, n) in b.whole_defs(r[1]):
                if si == "t":
                    raise Undecided("slice assigned from a call")
                rv = n["r"]
                if rv["k"] == "use":
                    alts = self.symlen_op(b, rv["o"])
                elif rv["k"] == "ref":
                    alts = self.symlen_op(b, {"p": rv["p"]})
                else:
                    raise Undecided("slice selection")
                conds, _ok = self.conditions(b, bi)
                if not _ok:
                    self.not_understood = True
                for a in alts:
                    out.append((list(conds), a))
            return out
        return [([], a) for a in self.symlen_op(b, operand)]


def _struct_cases(F, K, adt):
    """Per struct literal of `adt`: ({self-field path: [(conds, Poly)] in canonical atoms}, note). Constructor-side calls on
    the parameter that initialises an inner-transform field are renamed to ('inner', field path, what)."""
    out = []
    rec = F.adts_by_name.get(adt)
    if rec is None or len(rec["variants"]) != 1:
        return out
    for (cb, n) in _adt_literals(F).get(adt, []):
        ctx = GCtx(F, K, {}, "ctor")
        try:
            ctx.lit_block = next(i for i, bb in enumerate(cb.blocks) if any(x is n for x in bb["s"]))
        except StopIteration:
            ctx.lit_block = None
        fields = {}
        slens = {}
        rename = {}      # ('ctor', param) / ('ctorlocal', local) -> field path
        scalars = {}     # ctorparam atom -> field path holding exactly that parameter

        def walk(node, prefix, arec, depth):
            for fi, f in enumerate(arec["variants"][0]["fields"]):
                if fi >= len(node["ops"]):
                    continue
                op = node["ops"][fi]
                ts = F.ts(f["ty"])
                path = prefix + (fi,)
                if ts == "usize":
                    try:
                        fields[path] = ctx.symg(cb, cb.expr(op, rich=True))
                    except (Undecided, RecursionError):
                        fields[path] = None
                elif ts.startswith("std::boxed::Box<[") or ts.startswith("std::vec::Vec<"):
                    slens[path] = _slice_len_value(F, ctx, cb, op)
                elif "dyn Fft<" in ts and ts.startswith("std::sync::Arc<"):
                    r = cb.root(op)
                    if r[0] == "param":
                        rename[("ctor", r[1])] = path
                    elif r[0] == "multi":
                        rename[("ctorlocal", r[1])] = path
                    elif r[0] == "call" and r[2]["args"]:
                        rr = cb.root(r[2]["args"][0])
                        if rr[0] == "param":
                            rename[("ctor", rr[1])] = path
                elif depth < 1:
                    t = F.types[f["ty"]]
                    if t["k"] == "adt" and t.get("local"):
                        sub = F.adts_by_name.get(t["p"])
                        rr = cb.root(op)
                        if sub and len(sub["variants"]) == 1 and rr[0] == "agg" and rr[3]["r"].get("ak") == "adt":
                            walk(rr[3]["r"], path, sub, depth + 1)
        walk(n["r"], (), rec, 0)
        # a usize field that stores a constructor parameter unchanged names that parameter on the kernel side
        for path, gv in fields.items():
            if gv and len(gv) == 1 and not gv[0][0]:
                p = gv[0][1]
                atoms = list(p.atoms())
                if len(atoms) == 1 and atoms[0][0] == "ctorparam" and p.key() == Poly.atom(atoms[0]).key():
                    scalars[atoms[0]] = path

        def canon_poly(p):
            for a in list(p.atoms()):
                if a[0] == "inner" and isinstance(a[1], tuple) and a[1] and a[1][0] in ("ctor", "ctorlocal"):
                    if a[1] in rename:
                        p = p.subst(a, Poly.atom(("inner", rename[a[1]], a[2])))
                elif a in scalars:
                    p = p.subst(a, Poly.atom(("self", scalars[a], "field")))
            return p

        try:
            lbi = next(i for i, bb in enumerate(cb.blocks) if any(x is n for x in bb["s"]))
            ctx.allow_loop_atoms = False
            try:
                lit_conds, _ok = ctx.conditions(cb, lbi)
            finally:
                ctx.allow_loop_atoms = True
            if not _ok:
                ctx.not_understood = True
        except (StopIteration, Undecided, RecursionError):
            lit_conds = []
            ctx.not_understood = True
        def keep(c):
            """Drop pure loop bookkeeping (`cross_fft_len >= len` at the exit of the twiddle loop): a relation between the final
            value of a loop variable and length quantities only, with no scratch requirement in it."""
            ats = c[0].atoms() | c[2].atoms()
            if any(a[0] == "ctorloop" for a in ats) and not any(a[0] == "inner" and a[2] != "len" for a in ats):
                return False
            return True
        canon = {}
        for path, gv in list(fields.items()) + [(("len",) + k, v) for k, v in slens.items()]:
            if gv is None:
                canon[path] = None
            else:
                canon[path] = [([(canon_poly(l), op, canon_poly(r)) for (l, op, r) in conds if keep((l, op, r))], canon_poly(p)) for (conds, p) in gv]
        canon["__asserts__"] = [(canon_poly(l), op, canon_poly(r)) for (l, op, r) in lit_conds]
        canon["__not_understood__"] = ctx.not_understood
        canon["__facts__"] = [canon_poly(f) for f in ctx.facts]
        canon["__maxdefs__"] = {a: (canon_poly(pa), canon_poly(pb), mx) for a, (pa, pb, mx) in ctx.maxdefs.items()}
        out.append((canon, cb, n))
    return out


def _slice_len_value(F, ctx, cb, op):
    """Guarded length of the slice stored in a Box<[T]> / Vec<T> field: `vec![x; n].into_boxed_slice()` -> n."""
    e = cb.expr(op, rich=True)
    for _ in range(6):
        if e[0] == "call" and e[2] and (e[1].endswith("into_boxed_slice") or e[1].endswith("Into::into") or e[1].endswith("From::from")):
            e = e[2][0]
            continue
        break
    if e[0] == "multi":
        defs = cb.whole_defs(e[1])
        calls = [n for (bi, si, n) in defs if si == "t"]
        if len(calls) == 1:
            c = F.callee_of(calls[0])
            if c and c["p"].endswith("from_elem") and len(calls[0]["args"]) == 2:
                e = ("call", c["p"], [cb.expr(a, rich=True) for a in calls[0]["args"]], [], "", 0)
    if e[0] == "call" and e[1].endswith("from_elem") and len(e[2]) == 2:
        try:
            return ctx.symg(cb, e[2][1])
        except (Undecided, RecursionError):
            return None
    return None


def r_suffice(F, cfg):
    R = Result("R-SUFFICE", "the slice handed to each inner transform as its scratch is at least that transform's requirement of the matching kind, "
                            "with the advertised length expanded to the constructor's formula")
    from .entry import ENTRY_METHODS
    K = kb_for(F)
    roles = _sym_roles(F, K)
    n_types = n_hand = n_proved = n_refuted = n_undecided = 0
    for imp in F.trait_impls("Fft"):
        adt = F.impl_self_adt(imp)
        if adt is None or adt in K.fixed:
            continue
        inner_fields = _inner_fields(F, adt)
        if not inner_fields:
            continue
        n_types += 1
        rec = F.adts_by_name.get(adt) or {}
        exported = bool(rec.get("reachable") or rec.get("pub"))
        cases = _struct_cases(F, K, adt)
        T = Taint(F)
        T.keep_sites = True
        for mname, (kind, getter) in ENTRY_METHODS.items():
            b = F.body_of_impl_item(imp, mname)
            if b is None:
                continue
            for bi, si, n in b.iter_nodes():
                if n["k"] == "=" and n["r"]["k"] == "agg" and n["r"].get("ak") == "closure":
                    cid = n["r"]["id"]
                    role = roles.get(cid)
                    cb = F.bodies.get(cid)
                    if role is None or cb is None:
                        continue
                    scr = [i for i, (mb, op, mult) in role.items() if _is_required_scratch(F, mb, op)]
                    if scr:
                        T.walk(cb, {("param", i) for i in scr}, {}, kind, adt)
        seen_sites = set()
        for (ek, ro, ik, where, fnname, kb, kt, chain) in T.sites.get(adt, []):
            key = (ek, where, ik)
            if key in seen_sites:
                continue
            seen_sites.add(key)
            n_hand += 1
            verdict, detail = _judge(F, K, adt, kb, kt, ro, ik, cases, chain)
            tag = "%s:%s:%s" % (adt.rsplit("::", 1)[-1], ek, ik)
            if verdict == "proved":
                n_proved += 1
                R.ok({"type": adt, "entry_kind": ek, "site": where, "inner_needs": ik, "cases": detail}, nontrivial=True, sample_cap=12)
            elif verdict == "refuted":
                n_refuted += 1
                R.violation("suffice:%s:%s" % (tag, fnname), where,
                            "%s hands inner transform self.%s a scratch slice that can be shorter than its %s requirement: %s"
                            % (fnname, ".".join(map(str, ro[1])) if ro[0] == "self" else "?", ik, detail))
            else:
                n_undecided += 1
                R.undecided.append({"type": adt, "entry_kind": ek, "site": where, "inner_needs": ik,
                                    "status": "NOT DECIDED%s: %s" % (" (refutable only with inner transforms the planner never builds for this crate-private type)" if verdict == "refuted" else "", detail)})
                R.instances += 1
    R.metric("wrapper_types", n_types)
    R.metric("scratch_handoffs", n_hand)
    R.metric("proved", n_proved)
    R.metric("refuted", n_refuted)
    R.metric("undecided", n_undecided)
    return R


def _judge(F, K, adt, b, t, ro, ik, cases, chain=()):
    if ro[0] != "self":
        return "undecided", "inner transform is not a field of self"
    m = F.callee_of(t)["p"].rsplit("::", 1)[-1]
    kind, data_i, scr_i = PROCESS[m]
    ctx = GCtx(F, K, {}, "kernel")
    for (gid, cb_, t_, tupled) in chain:
        ctx.callsite[gid] = (cb_, t_, tupled)
    try:
        ctx.side = []
        alts = ctx.symleng(b, t["args"][scr_i])
        bi = next(i for i, bb in enumerate(b.blocks) if bb["t"] is t)
        site_conds, _ok = ctx.conditions(b, bi)
        if not _ok:
            ctx.not_understood = True
    except (Undecided, RecursionError, StopIteration) as u:
        return "undecided", "length of the slice handed over: %s" % u
    need = Poly.atom(ctx.inner_atom(tuple(ro[1]), ik))
    if not cases:
        return "undecided", "no constructor found"
    n_cases = 0
    witness = None
    all_proved = True
    for (fields, cb, lit) in cases:
        for (aconds, alen) in alts:
            # self-field atoms mentioned by the length / conditions
            polys = [alen] + [x for c in (aconds + site_conds) for x in (c[0], c[2])]
            used = sorted({a for p in polys for a in p.atoms() if a[0] == "self" and a[2] in ("field", "len")}, key=repr)
            choices = []
            unknown = ctx.not_understood or fields.get("__not_understood__", False) or any(a[0] == "self" and a[2] == "call" for p in polys for a in p.atoms())
            for a in used:
                if a[2] == "field":
                    gv = fields.get(tuple(a[1]))
                else:
                    gv = None
                    for k, v in fields.items():
                        if isinstance(k, tuple) and k and k[0] == "len" and tuple(a[1])[:len(k) - 1] == k[1:]:
                            gv = v
                if gv is None:
                    choices.append([None])
                    unknown = True
                else:
                    choices.append(gv)
            if len(used) > 4:
                return "undecided", "too many fields"
            for combo in product(*choices):
                n_cases += 1
                if n_cases > 96:
                    return "undecided", "too many cases"
                conds = list(aconds) + list(site_conds) + list(fields.get("__asserts__", []))
                sub = {}
                for a, gvc in zip(used, combo):
                    if gvc is None:
                        continue
                    conds += list(gvc[0])
                    sub[a] = gvc[1]

                def ap(p):
                    for a, v in sub.items():
                        p = p.subst(a, v)
                    return p
                goal = ap(alen) - need
                cc = [(ap(l), op, ap(r)) for (l, op, r) in conds]
                c2 = GCtx(F, K, {}, "kernel")
                c2.info = dict(ctx.info)
                c2.expand = dict(ctx.expand)
                c2.qr = dict(ctx.qr)
                c2.facts = list(ctx.facts) + [ap(f) for f in fields.get("__facts__", [])]
                mdefs = dict(ctx.maxdefs)
                mdefs.update({a: (ap(pa), ap(pb), mx) for a, (pa, pb, mx) in fields.get("__maxdefs__", {}).items()})
                c2.eqs = list(ctx.eqs)
                c2.side_for_goal = ()
                for p in [goal] + [x for c in cc for x in (c[0], c[2])]:
                    for a in p.atoms():
                        c2.info.setdefault(a, {"lo": Poly.const(0), "hi": None})
                if c2.prove(goal, cc):
                    continue
                all_proved = False
                w = None if unknown else _witness(goal, cc, mdefs)
                if w is not None and witness is None:
                    witness = w
    if all_proved:
        return "proved", n_cases
    if witness is not None:
        return "refuted", "e.g. " + ", ".join("%s = %d" % (k, v) for k, v in sorted(witness.items()))
    return "undecided", "no proof and no witness in the small model (%d cases)" % n_cases


def _witness(goal, conds, maxdefs=None):
    """A small assignment of the atoms under which all conditions hold and goal < 0; only when every atom is an
    independent quantity of the model (own fields, inner lengths and requirements)."""
    maxdefs = maxdefs or {}
    atoms = set(goal.atoms())
    for (l, op, r) in conds:
        atoms |= l.atoms() | r.atoms()
    derived = [a for a in atoms if a[0] in ("max", "min")]
    for a in derived:
        if a not in maxdefs:
            return None
        atoms |= maxdefs[a][0].atoms() | maxdefs[a][1].atoms()
    derived = [a for a in atoms if a[0] in ("max", "min")]
    if any(a not in maxdefs for a in derived):
        return None
    atoms = {a for a in atoms if a[0] not in ("max", "min")}
    if any(a[0] not in ("inner", "pow2", "ctorloop") for a in atoms):
        return None
    if any(a[0] == "ctorloop" for a in atoms) and any(a[0] == "pow2" or (a[0] == "inner" and a[2] == "len") for a in atoms):
        return None      # the final value of a constructor loop is tied to the other length quantities by a loop invariant we do not have
    atoms = sorted(atoms, key=repr)
    if len(atoms) > 6:
        return None
    grid0 = [0, 1, 2, 3, 5, 8, 13, 40]
    # lengths first try a natural value (8), requirements start from 0: the first witness found is the one reported
    glen = [8, 13, 5, 3, 2, 1, 40]
    grids = [glen if (a[0] == "inner" and a[2] == "len") else ([1, 2, 5, 8] if a[0] == "pow2" else ([8, 13, 40, 3] if a[0] == "ctorloop" else grid0)) for a in atoms]
    for vals in product(*grids):
        env = dict(zip(atoms, vals))
        try:
            for _ in range(3):
                for a in derived:
                    pa, pb, mx = maxdefs[a]
                    if all(x in env for x in pa.atoms() | pb.atoms()):
                        env[a] = max(pa.eval(env), pb.eval(env)) if mx else min(pa.eval(env), pb.eval(env))
            ok = True
            for (l, op, r) in conds:
                lv, rv = l.eval(env), r.eval(env)
                if not {"Eq": lv == rv, "Ne": lv != rv, "Gt": lv > rv, "Ge": lv >= rv, "Lt": lv < rv, "Le": lv <= rv}[op]:
                    ok = False
                    break
            if ok and goal.eval(env) < 0:
                return {_wname(a): v for a, v in env.items() if a[0] not in ("max", "min")}
        except KeyError:
            return None
    return None


def _wname(a):
    if a[0] == "inner":
        return "self.%s.%s" % (".".join(map(str, a[1])), {"len": "len()", "inplace": "get_inplace_scratch_len()", "outofplace": "get_outofplace_scratch_len()",
                                                           "immut": "get_immutable_scratch_len()"}.get(a[2], a[2]))
    if a[0] == "self":
        return "self.%s%s" % (".".join(map(str, a[1])) if isinstance(a[1], tuple) else a[1], "" if a[2] == "field" else "." + a[2])
    if a[0] == "pow2":
        return "(1 << k)"
    if a[0] == "ctorloop":
        return "len (final value of the constructor's loop variable _%s)" % a[1]
    return _aname(a)
