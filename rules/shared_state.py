"""Zero-count rules for C11 / C15 / C10: R-NOCELL, R-NOSTATIC, R-NOUNSAFEIMPL, R-NOFORGE,
R-STOREIMPLS, R-IMMUTSIG, R-NONDET."""
from .core import Result, is_std_macro

MUTCAP = ("*mut ", "&mut ", "NonNull<", "Box<", "Unique<")


def _mentions_mut(s):
    return any(m in s for m in MUTCAP) or "&'" in s and " mut " in s


def r_nocell(F, cfg):
    R = Result("R-NOCELL", "no interior mutability reachable from any crate type")
    fft_adts = set()
    for i in F.trait_impls("Fft"):
        p = F.impl_self_adt(i)
        if p:
            fft_adts.add(p)
    walked = 0
    for a in F.adts.values():
        walked += a.get("walked", 0)
        if a["cell_path"]:
            R.violation("adt:%s" % a["name"], "%s:%s" % (a["file"], a["l"]),
                        "interior mutability reachable: " + " -> ".join(a["cell_path"]))
        else:
            R.ok({"adt": a["name"], "types_walked": a.get("walked", 0), "is_fft_impl": a["name"] in fft_adts},
                 nontrivial=a.get("walked", 0) > 1)
    # associated types chosen by local impls (e.g. AvxNum::VectorType) are walked too
    for i in F.impls:
        for at in i.get("assoc_tys", []):
            if at.get("cell_path"):
                R.violation("assoc:%s:%s" % (i["id"], at["name"]), "%s:%s" % (i["file"], i["l"]),
                            "associated type carries interior mutability: " + " -> ".join(at["cell_path"]))
            else:
                R.ok()
    missing = [p for p in fft_adts if p not in F.adts_by_name]
    for p in missing:
        R.violation("foreign-fft-self:%s" % p, "?", "Fft implemented for a type whose definition was not walked")
    R.metric("adts", len(F.adts))
    R.metric("fft_impl_adts", len(fft_adts))
    R.metric("types_walked", walked)
    return R


FPENV_FNS = {"_mm_setcsr", "_mm_getcsr", "_fxrstor", "_fxrstor64", "_xrstor", "_xrstor64", "_xrstors", "_xrstors64",
             "fesetround", "fesetenv", "feupdateenv", "feholdexcept", "_controlfp", "_control87"}


def r_nostatic(F, cfg):
    R = Result("R-NOSTATIC", "no mutable / non-Freeze / thread-local static; no access to the per-thread FP control state; no inline asm")
    for s in F.statics:
        w = "%s:%s" % (s["file"], s["l"])
        if s["mut"]:
            R.violation("static-mut:%s" % s["name"], w, "static mut")
        elif not s["freeze"]:
            R.violation("static-nonfreeze:%s" % s["name"], w, "static with interior mutability: %s" % F.ts(s["ty"]))
        elif s["thread_local"]:
            R.violation("static-tls:%s" % s["name"], w, "thread-local static")
        else:
            R.ok({"static": s["name"], "ty": F.ts(s["ty"])})
    # thread_local! also shows up as uses of LocalKey
    n = 0
    for b in F.bodies.values():
        for bi, si, node in b.iter_nodes():
            n += 1
            if node["k"] == "=" and node["r"]["k"] == "tls":
                R.violation("tlsref:%s" % b.name, b.where(node), "thread-local reference")
            if node["k"] == "call":
                c = F.callee_of(node)
                if c and ("thread::LocalKey" in c["p"] or "thread::local::LocalKey" in c["p"] or "thread::local_impl" in c["p"]):
                    R.violation("localkey:%s" % b.name, b.where(node), "use of a thread_local! key: " + c["p"])
                # the floating-point environment (MXCSR: rounding mode, flush-to-zero, denormals-are-zero) is hidden
                # per-thread state: writing it makes later results depend on which thread ran what before, reading it
                # makes results depend on it
                if c and not c.get("local", True):
                    last = c["p"].rsplit("::", 1)[-1]
                    if last in FPENV_FNS or last.startswith("_MM_SET_") or last.startswith("_MM_GET_"):
                        R.violation("fpenv:%s:%s" % (b.name, last), b.where(node),
                                    "%s touches the per-thread floating-point control state (%s): results then depend on thread history" % (b.name, last))
            if node["k"] == "asm":
                R.violation("asm:%s" % b.name, b.where(node), "%s contains inline assembly (can read or write arbitrary hidden state)" % b.name)
    R.metric("statics", len(F.statics))
    R.metric("mir_nodes_scanned", n)
    R.instances += 1  # the crate-wide scan itself
    return R


def r_nounsafeimpl(F, cfg):
    R = Result("R-NOUNSAFEIMPL", "no unsafe impl of an auto trait (Send/Sync/...)")
    n = 0
    for i in F.impls:
        if "trait" not in i:
            continue
        n += 1
        tr = i["trait"]
        w = "%s:%s" % (i["file"], i["l"])
        if i.get("auto_trait") or tr in ("std::marker::Send", "std::marker::Sync", "core::marker::Send", "core::marker::Sync"):
            if i.get("negative"):
                R.ok({"impl": i["id"], "trait": tr, "negative": True})
                continue
            R.violation("autoimpl:%s:%s" % (tr, F.ts(i["self_ty"])), w,
                        "explicit impl of auto trait %s for %s" % (tr, F.ts(i["self_ty"])))
        else:
            R.ok()
    R.metric("trait_impls", n)
    return R


FORGE_CALLS = (
    "cast_mut",                 # <*const T>::cast_mut
    "ptr::const_ptr::<impl *const T>::as_mut",
    "mem::transmute",           # transmute / transmute_copy as calls (generic intrinsic form)
    "intrinsics::transmute",
    "NonNull::<T>::from_ref",
    "ptr::with_exposed_provenance_mut",
    "ptr::without_provenance_mut",
    "ptr::from_exposed_addr_mut",
    "cell::UnsafeCell",
    "cell::Cell::<T>::as_ptr",
    "cell::RefCell",
    "sync::atomic::",
    "Arc::<T>::get_mut_unchecked",
    "Arc::<T, A>::get_mut_unchecked",
    "Rc::<T>::get_mut_unchecked",
    "sync::Mutex", "sync::RwLock", "sync::OnceLock", "sync::Once", "cell::OnceCell", "cell::LazyCell", "sync::LazyLock",
)


def r_noforge(F, cfg):
    """No construct that can manufacture write access from shared access, anywhere in the crate."""
    R = Result("R-NOFORGE", "no *const->*mut / &->&mut forging construct")
    casts = 0
    ptrcasts = 0
    calls = 0
    boxderefs = 0
    for b in F.bodies.values():
        for bi, si, node in b.iter_nodes():
            if node["k"] == "=":
                r = node["r"]
                if r["k"] == "cast":
                    casts += 1
                    fr = F.types[r["from"]]
                    to = F.types[r["to"]]
                    ck = r["ck"]
                    key = None
                    if ck == "PtrToPtr":
                        ptrcasts += 1
                        if to["k"] == "ptr" and to["m"] and not (fr["k"] == "ptr" and fr["m"]):
                            key = "const-to-mut"
                    elif ck == "Transmute":
                        ptrcasts += 1
                        # Box<[T]> deref is compiled to a NonNull -> *const transmute: target is not
                        # write-capable. Anything whose target is write-capable while the source is
                        # not is forging.
                        ts, fs = to["s"], fr["s"]
                        to_mut = (to["k"] in ("ptr", "ref") and to["m"]) or _mentions_mut(ts)
                        fr_mut = (fr["k"] in ("ptr", "ref") and fr["m"]) or _mentions_mut(fs)
                        if to_mut and not fr_mut:
                            key = "transmute-to-mut"
                    elif ck in ("PointerWithExposedProvenance",):
                        ptrcasts += 1
                        if to["k"] == "ptr" and to["m"]:
                            key = "int-to-mut-ptr"
                    elif ck.startswith("PointerCoercion(MutToConstPointer") or ck.startswith("PointerCoercion(Unsize") \
                            or ck.startswith("PointerCoercion(ArrayToPointer") or ck.startswith("PointerCoercion(ReifyFnPointer") \
                            or ck.startswith("PointerCoercion(ClosureFnPointer") or ck.startswith("PointerCoercion(UnsafeFnPointer"):
                        # coercions never add mutability; double-check anyway
                        if to["k"] in ("ptr", "ref") and to.get("m") and fr["k"] in ("ptr", "ref") and not fr.get("m"):
                            key = "coercion-adds-mut"
                    if key:
                        R.violation("%s:%s:%s->%s" % (key, b.name, fr["s"], to["s"]), b.where(node),
                                    "%s cast %s -> %s in %s" % (ck, fr["s"], to["s"], b.name))
                elif r["k"] == "agg" and r.get("ak") == "rawptr" and r.get("m"):
                    # *mut built from (data pointer, metadata): the data pointer must itself be *mut
                    ops = r["ops"]
                    if ops and "p" in ops[0]:
                        t0 = b.ty(ops[0]["p"][0])
                        if len(ops[0]["p"]) == 1 and not (t0["k"] == "ptr" and t0["m"]):
                            R.violation("rawptr-agg:%s" % b.name, b.where(node), "*mut aggregate from non-*mut data pointer")
                elif r["k"] == "rawptr" and r.get("m"):
                    # &raw mut *x where x is a shared reference / const pointer
                    p = r["p"]
                    if "d" in p[1:]:
                        t0 = b.ty(p[0])
                        if t0["k"] in ("ref", "ptr") and not t0["m"] and p[1] == "d":
                            if t0["k"] == "ptr" and _is_box_deref(F, b, p[0]):
                                boxderefs += 1
                            else:
                                R.violation("rawmut-of-shared:%s" % b.name, b.where(node), "&raw mut through a shared pointer")
                elif r["k"] == "ref" and r.get("m"):
                    p = r["p"]
                    if len(p) > 1 and p[1] == "d":
                        t0 = b.ty(p[0])
                        if t0["k"] == "ptr" and not t0["m"]:
                            if _is_box_deref(F, b, p[0]):
                                boxderefs += 1
                            else:
                                R.violation("mutref-of-constptr:%s" % b.name, b.where(node), "&mut *(*const _)")
            elif node["k"] in ("call", "tailcall"):
                calls += 1
                c = F.callee_of(node)
                if not c or c["local"]:
                    continue
                p = c["p"]
                hit = None
                for pat in FORGE_CALLS:
                    if pat in p:
                        hit = pat
                        break
                if p.endswith("NonNull::<T>::from") or ("convert::From::from" in p and "NonNull" in F.ts(c["a"][0]) if c["a"] and isinstance(c["a"][0], int) else False):
                    # NonNull::from(&T): only the shared-reference form forges
                    a1 = node["args"][0] if node["args"] else None
                    if a1 and "p" in a1:
                        t = b.ty(a1["p"][0])
                        if len(a1["p"]) == 1 and t["k"] == "ref" and not t["m"]:
                            hit = "NonNull::from(&T)"
                if hit and "transmute" in hit:
                    # generic transmute call: judge by its type arguments
                    a = [F.ts(x) for x in c["a"] if isinstance(x, int)]
                    if len(a) >= 2 and not (_mentions_mut(a[1]) and not _mentions_mut(a[0])):
                        hit = None
                if hit:
                    R.violation("call:%s:%s" % (hit, b.name), b.where(node), "call of %s in %s" % (p, b.name))
            elif node["k"] == "asm":
                R.violation("asm:%s" % b.name, b.where(node), "inline assembly")
    for a in F.adts.values():
        if a["kind"] == "Union":
            R.violation("union:%s" % a["name"], "%s:%s" % (a["file"], a["l"]), "union type (can reinterpret pointers)")
    R.instances += ptrcasts
    R.nontrivial += ptrcasts
    R.metric("casts", casts)
    R.metric("box_deref_mut_idioms", boxderefs)
    R.metric("pointer_casts_examined", ptrcasts)
    R.metric("calls_examined", calls)
    R.metric("bodies", len(F.bodies))
    # a few samples of examined pointer casts
    for b in F.bodies.values():
        if len(R.samples) >= 8:
            break
        for bi, si, node in b.iter_nodes():
            if node["k"] == "=" and node["r"]["k"] == "cast" and node["r"]["ck"] == "PtrToPtr":
                r = node["r"]
                R.samples.append({"fn": b.name, "at": b.where(node), "cast": "%s -> %s" % (F.ts(r["from"]), F.ts(r["to"])), "verdict": "keeps mutability"})
                break
    return R


def _is_box_deref(F, b, local):
    """rustc lowers `&mut *boxed` to `p = transmute::<NonNull<X>, *const X>(boxed.0.0); &mut *p`.
    Accept a *const local only when it is exactly that: single definition, Transmute from
    NonNull, operand a field path of a Box-typed local/field."""
    ds = b.whole_defs(local)
    if len(ds) != 1 or ds[0][1] == "t":
        return False
    r = ds[0][2]["r"]
    if r["k"] != "cast" or r["ck"] != "Transmute" or "p" not in r["o"]:
        return False
    if not F.ts(r["from"]).startswith("std::ptr::NonNull<"):
        return False
    place = r["o"]["p"]
    # walk the projection: the innermost non-field-0 prefix must have Box type
    tid = b.locals[place[0]]
    t = F.types[tid]
    path = list(place[1:])
    while True:
        if t["k"] == "adt" and t["p"] == "std::boxed::Box":
            # remaining projection must be the .0.0 descent into Unique/NonNull
            rest = [e for e in path]
            return all(isinstance(e, list) and e[0] == "f" and e[1] == 0 for e in rest) and len(rest) == 2
        if not path:
            return False
        e = path.pop(0)
        if e == "d":
            if t["k"] in ("ref", "ptr"):
                t = F.types[t["t"]]
            else:
                return False
        elif isinstance(e, list) and e[0] == "f":
            if t["k"] == "adt" and t.get("local"):
                adt = F.adts_by_name.get(t["p"])
                if not adt or len(adt["variants"]) != 1:
                    return False
                # generic substitution is irrelevant for recognising Box<..>
                t = F.types[adt["variants"][0]["fields"][e[1]]["ty"]]
            elif t["k"] == "tuple":
                t = F.types[t["a"][e[1]]]
            else:
                return False
        else:
            return False


STORE_TRAITS = ("array_utils::LoadStore", "sse::sse_vector::SseArrayMut", "avx::avx_vector::AvxArrayMut")


def r_storeimpls(F, cfg):
    R = Result("R-STOREIMPLS", "store-capable traits are implemented only for exclusive receivers")
    n = 0
    for tr in STORE_TRAITS:
        for i in F.trait_impls(tr):
            n += 1
            t = F.types[i["self_ty"]]
            w = "%s:%s" % (i["file"], i["l"])
            ok = False
            if t["k"] == "ref" and t["m"]:
                inner = F.types[t["t"]]
                if inner["k"] in ("slice", "array"):
                    ok = True
            elif t["k"] == "adt" and t["p"] == "array_utils::DoubleBuf":
                ok = True
            if ok:
                R.ok({"trait": tr, "self": t["s"]})
            else:
                R.violation("storeimpl:%s:%s" % (tr, t["s"]), w, "%s implemented for %s (not an exclusive receiver)" % (tr, t["s"]))
    R.metric("store_impls", n)
    # DoubleBuf: input is a shared slice; store paths never touch field 0
    db = F.adts_by_name.get("array_utils::DoubleBuf")
    if db is None:
        if any(F.trait_impls(tr) for tr in STORE_TRAITS):
            R.violation("doublebuf-missing", "src/array_utils.rs", "anchor array_utils::DoubleBuf not found")
        return R
    fields = db["variants"][0]["fields"]
    names = [f["name"] for f in fields]
    if "input" not in names or "output" not in names:
        R.violation("doublebuf-fields", "%s:%s" % (db["file"], db["l"]), "DoubleBuf lost its input/output fields")
        return R
    fi = names.index("input")
    fo = names.index("output")
    tin = F.types[fields[fi]["ty"]]
    tout = F.types[fields[fo]["ty"]]
    if not (tin["k"] == "ref" and not tin["m"]):
        R.violation("doublebuf-input-ty", "%s:%s" % (db["file"], db["l"]), "DoubleBuf.input is %s, expected a shared slice" % tin["s"])
    else:
        R.ok({"DoubleBuf.input": tin["s"]})
    if not (tout["k"] == "ref" and tout["m"]):
        R.violation("doublebuf-output-ty", "%s:%s" % (db["file"], db["l"]), "DoubleBuf.output is %s" % tout["s"])
    else:
        R.ok({"DoubleBuf.output": tout["s"]})
    nstore = 0
    for i in F.impls:
        if F.impl_self_adt(i) != "array_utils::DoubleBuf" or "trait" not in i:
            continue
        storeish = i["trait"] in STORE_TRAITS or i["trait"] == "std::ops::DerefMut"
        if not storeish:
            continue
        for it in i["items"]:
            b = F.bodies.get(it["id"])
            if b is None:
                continue
            if i["trait"] == "array_utils::LoadStore" and it["name"] == "load":
                continue
            nstore += 1
            bad = False
            for bi, si, node in b.iter_nodes():
                for place in _places_of(node):
                    if place[0] == 1 and ["f", fi] in place[1:]:
                        bad = True
                        R.violation("doublebuf-store-touches-input:%s" % b.name, b.where(node),
                                    "store path %s reads/writes DoubleBuf.input" % b.name)
            if not bad:
                R.ok({"store_fn": b.name, "touches": "output only"}, nontrivial=True)
    R.metric("doublebuf_store_fns", nstore)
    return R


def _places_of(node):
    out = []

    def op(o):
        if o and "p" in o:
            out.append(o["p"])
    if node["k"] == "=":
        out.append(node["p"])
        r = node["r"]
        for k in ("o", "a", "b"):
            if k in r:
                op(r[k])
        if "p" in r:
            out.append(r["p"])
        for o in r.get("ops", []):
            op(o)
    elif node["k"] in ("call", "tailcall"):
        op(node["f"])
        for a in node["args"]:
            op(a)
        if "d" in node:
            out.append(node["d"])
    elif node["k"] in ("switch", "assert"):
        op(node["o"])
    elif node["k"] == "drop":
        out.append(node["p"])
    return out


def r_immutsig(F, cfg):
    R = Result("R-IMMUTSIG", "process_immutable_with_scratch takes its input as a shared slice")
    n = 0
    for i in F.trait_impls("Fft"):
        b = F.body_of_impl_item(i, "process_immutable_with_scratch")
        if b is None:
            R.violation("immut-missing:%s" % F.ts(i["self_ty"]), "%s:%s" % (i["file"], i["l"]), "no process_immutable_with_scratch body")
            continue
        n += 1
        t = b.ty(2)
        inner = F.types[t["t"]] if t["k"] == "ref" else None
        if t["k"] == "ref" and not t["m"] and inner and inner["k"] == "slice":
            R.ok({"impl": b.name, "input": t["s"]} if n <= 4 else None)
        else:
            R.violation("immut-sig:%s" % b.name, b.where(), "input parameter has type %s" % t["s"])
    wt = F.bodies.get("rustfft::array_utils::workaround_transmute")
    if wt is None:
        R.violation("anchor:workaround_transmute", "src/array_utils.rs", "anchor function missing")
    else:
        a, r = wt.ty(1), wt.ty(0)
        if a["k"] == "ref" and not a["m"] and r["k"] == "ref" and not r["m"]:
            R.ok({"workaround_transmute": "%s -> %s" % (a["s"], r["s"])})
        else:
            R.violation("workaround_transmute-sig", wt.where(), "workaround_transmute maps %s -> %s" % (a["s"], r["s"]))
    R.metric("immut_entry_points", n)
    return R


NONDET_CALLS = (
    "std::time::", "std::env::", "rand::", "std::thread::", "RandomState::new", "std::process::id",
    "Arc::<T>::as_ptr", "Arc::<T, A>::as_ptr", "Arc::<T>::ptr_eq", "Arc::<T, A>::ptr_eq", "std::ptr::eq", "std::ptr::addr_eq",
    "std::fs::", "std::net::", "std::io::stdin", "getrandom", "std::hash::BuildHasher", "DefaultHasher",
)
HASH_ITER = ("::iter", "::iter_mut", "::keys", "::values", "::values_mut", "::drain", "::retain", "::into_keys",
             "::into_values", "::extract_if")


def r_nondet(F, cfg):
    R = Result("R-NONDET", "no source of nondeterminism (hash-order iteration, clock, RNG, env, addresses)")
    calls = 0
    for b in F.bodies.values():
        for bi, si, node in b.iter_nodes():
            if node["k"] == "=" and node["r"]["k"] == "cast" and node["r"]["ck"] in ("PointerExposeProvenance", "FnPtrToPtr"):
                R.violation("ptr-to-int:%s" % b.name, b.where(node), "pointer exposed as integer in %s" % b.name)
            if node["k"] == "=" and node["r"]["k"] == "cast" and node["r"]["ck"] == "Transmute":
                fr, to = F.types[node["r"]["from"]], F.types[node["r"]["to"]]
                if fr["k"] in ("ptr", "ref") and to["k"] == "prim":
                    R.violation("ptr-transmute-int:%s" % b.name, b.where(node), "pointer transmuted to integer")
            if node["k"] not in ("call", "tailcall"):
                continue
            calls += 1
            c = F.callee_of(node)
            if not c or c["local"]:
                continue
            p = c["p"]
            full = p + " " + c.get("resp", "")
            hit = None
            for pat in NONDET_CALLS:
                if pat in full:
                    hit = pat
            if ("collections::HashMap" in p or "collections::HashSet" in p or "hash::map::" in p or "hash::set::" in p) \
                    and any(p.endswith(s) for s in HASH_ITER):
                hit = "hash-order iteration"
            if "IntoIterator::into_iter" in p and c["a"] and isinstance(c["a"][0], int):
                st = F.ts(c["a"][0])
                if "HashMap<" in st or "HashSet<" in st:
                    hit = "hash-order iteration (into_iter)"
            if hit:
                R.violation("nondet:%s:%s" % (hit, b.name), b.where(node), "call of %s in %s" % (p, b.name))
    R.instances += 1
    R.metric("calls_examined", calls)
    # sample: the HashMap calls that do exist
    seen = {}
    for b in F.bodies.values():
        for bi, t in b.calls():
            c = F.callee_of(t)
            if c and "HashMap" in c["p"]:
                seen.setdefault(c["p"], b.name)
    for p, fn in sorted(seen.items()):
        R.ok({"hashmap_call": p, "in": fn, "verdict": "order-independent"}, nontrivial=True)
    return R
