"""R-PRIMW, R-RAWFIXED, R-RELSITES, R-WHOCALLS (C03).

R-PRIMW     every SIMD load/store primitive moves exactly the number of bytes its name promises, and
            every array-trait wrapper hands the primitive `receiver.as_ptr().add(index)` of its own receiver
R-RAWFIXED  the few raw intrinsic loads inside fixed-size kernels (escape hatch `input_ptr()`) stay inside the chunk
R-RELSITES  inventory (NOT a verdict) of every remaining unchecked access whose bound is a relation between
            run-time lengths, plus the presence of the explicit guards in front of the unchecked transposes
R-WHOCALLS  the exported surface offers no way to a data-buffer function other than the validated entry points
"""
from collections import defaultdict

from .core import Result
from .kbound import kb_for, ACCESS_TRAITS, VECTOR_COMPLEX, TOP
from .tables import region_panics

# bytes moved through each pointer argument of a memory intrinsic
INTRINSIC_BYTES = {
    "_mm_load_ss": 4, "_mm_load1_ps": 4, "_mm_load_ps1": 4, "_mm_store_ss": 4,
    "_mm_load_sd": 8, "_mm_load1_pd": 8, "_mm_loaddup_pd": 8, "_mm_store_sd": 8, "_mm_storel_pd": 8, "_mm_storeh_pd": 8,
    "_mm_loadl_pd": 8, "_mm_loadh_pd": 8, "_mm_loadl_epi64": 8, "_mm_storel_epi64": 8,
    "_mm_loadu_ps": 16, "_mm_load_ps": 16, "_mm_loadu_pd": 16, "_mm_load_pd": 16, "_mm_storeu_ps": 16, "_mm_store_ps": 16,
    "_mm_storeu_pd": 16, "_mm_store_pd": 16, "_mm_loadu_si128": 16, "_mm_storeu_si128": 16, "_mm_lddqu_si128": 16,
    "_mm256_loadu2_m128d": 16, "_mm256_loadu2_m128": 16, "_mm256_storeu2_m128d": 16, "_mm256_storeu2_m128": 16,
    "_mm256_broadcast_sd": 8, "_mm256_broadcast_ss": 4, "_mm256_broadcast_pd": 16, "_mm256_broadcast_ps": 16,
    "_mm256_loadu_ps": 32, "_mm256_load_ps": 32, "_mm256_loadu_pd": 32, "_mm256_load_pd": 32, "_mm256_storeu_ps": 32, "_mm256_store_ps": 32,
    "_mm256_storeu_pd": 32, "_mm256_store_pd": 32, "_mm256_loadu_si256": 32, "_mm256_storeu_si256": 32, "_mm256_lddqu_si256": 32,
}
VECTOR_SCALAR = {"std::arch::x86_64::__m128": "f32", "std::arch::x86_64::__m128d": "f64",
                 "std::arch::x86_64::__m256": "f32", "std::arch::x86_64::__m256d": "f64"}
VECTOR_BYTES = {"std::arch::x86_64::__m128": 16, "std::arch::x86_64::__m128d": 16,
                "std::arch::x86_64::__m256": 32, "std::arch::x86_64::__m256d": 32}
COMPLEX_BYTES = {"f32": 8, "f64": 16}
VECTOR_TRAITS = ("sse::sse_vector::SseVector", "avx::avx_vector::AvxVector256", "avx::avx_vector::AvxVector128", "avx::avx_vector::AvxVector")
PRIM_K = {  # complex elements promised by the method name (None = a whole vector)
    "load_complex": None, "store_complex": None,
    "load_partial_lo_complex": 1, "store_partial_lo_complex": 1, "store_partial_hi_complex": 1, "load1_complex": 1,
    "load_partial1_complex": 1, "load_partial2_complex": 2, "load_partial3_complex": 3,
    "store_partial1_complex": 1, "store_partial2_complex": 2, "store_partial3_complex": 3,
}


def _is_intrinsic(c):
    return c and not c["local"] and ("core_arch" in c["p"] or "arch::x86" in c["p"])


def _iname(c):
    return c["p"].rsplit("::", 1)[1]


def _sizeof(ts, scalar):
    """size in bytes of a pointee type string (only the forms that occur as pointees here)."""
    ts = ts.strip()
    if "ScalarType" in ts and "Complex<" in ts:
        return COMPLEX_BYTES.get(scalar)
    if ts.endswith("ScalarType"):
        return {"f32": 4, "f64": 8}.get(scalar)
    table = {"f32": 4, "f64": 8, "u8": 1, "i8": 1, "i32": 4, "u32": 4, "i64": 8, "u64": 8, "usize": 8, "isize": 8,
             "num_complex::Complex<f32>": 8, "num_complex::Complex<f64>": 16,
             "std::arch::x86_64::__m128": 16, "std::arch::x86_64::__m128d": 16, "std::arch::x86_64::__m128i": 16,
             "std::arch::x86_64::__m256": 32, "std::arch::x86_64::__m256d": 32, "std::arch::x86_64::__m256i": 32}
    return table.get(ts)


def _ptr_expr(b, e, scalar, depth=0):
    """Decompose a pointer expression into (base, byte offset) where base is ('param', i),
    ('input_ptr', recv operand), ('ref', expr) or None."""
    if depth > 12 or not isinstance(e, tuple):
        return None
    if e[0] == "cast" and e[1] in ("PtrToPtr",) or (e[0] == "cast" and e[1].startswith("PointerCoercion")):
        return _ptr_expr(b, e[3], scalar, depth + 1)
    if e[0] == "param":
        return (("param", e[1]), 0)
    if e[0] == "call":
        name = e[1]
        if name.endswith("::add") or name.endswith("::offset"):
            inner = _ptr_expr(b, e[2][0], scalar, depth + 1)
            k = e[2][1]
            if inner is None or k[0] != "const" or not isinstance(k[1], int):
                return None
            sz = _sizeof(e[3][0], scalar) if e[3] else None
            if sz is None:
                return None
            return (inner[0], inner[1] + k[1] * sz)
        if name.endswith("AvxArray::input_ptr") or name.endswith("::input_ptr"):
            return (("input_ptr", e), 0)
        if name.endswith("<impl [T]>::as_ptr") or name.endswith("<impl [T]>::as_mut_ptr"):
            return (("as_ptr", e), 0)
    return None


def _vector_impls(F):
    out = []
    for imp in F.impls:
        if imp.get("trait") in VECTOR_TRAITS:
            st = F.ts(imp["self_ty"])
            if st in VECTOR_SCALAR:
                out.append((imp, st))
    return out


def _helper_ptr_ok(F, g):
    """Does local helper g(elements, index) return elements.as_[mut_]ptr().add(index)?"""
    if g is None or g.argc < 2:
        return None
    for bi, si, n in g.iter_nodes():
        if n["k"] == "call" and n["d"] == [0] or (n["k"] == "=" and n["p"] == [0]):
            e = g.expr({"p": [0]})
            if e[0] == "call" and e[1].endswith("::add") and len(e[2]) == 2:
                base, off = e[2]
                if off[0] == "param" and base[0] == "call" and (base[1].endswith("::as_ptr") or base[1].endswith("::as_mut_ptr")) \
                        and base[2] and base[2][0][0] == "param":
                    return (base[2][0][1], off[1])  # (slice param, index param)
    return None


def _helper_unchecked_ok(F, g):
    """Does local helper g(elements, .., idx) access elements.get_unchecked[_mut](idx)? -> (slice param, idx param)"""
    if g is None:
        return None
    for bi, t in g.calls():
        c = F.callee_of(t)
        if c and "get_unchecked" in c["p"] and len(t["args"]) == 2:
            a0, a1 = g.root(t["args"][0]), g.root(t["args"][1])
            if a0[0] == "param" and a1[0] == "param":
                return (a0[1], a1[1])
    return None


def _self_or_field(b, operand, is_db, store):
    """Does the operand denote the wrapper's own receiver (self, self.as_slice(), or for DoubleBuf the right side)?"""
    r = b.root(operand)
    if r[0] == "call":
        c_name = (r[2]["f"].get("c") or {}).get("p", "")
        if c_name.endswith("::as_slice") or c_name.endswith("::as_mut_slice") or c_name.endswith("Deref::deref") or c_name.endswith("DerefMut::deref_mut"):
            return _self_or_field(b, r[2]["args"][0], is_db, store)
        return False
    if is_db:
        return r[0] == "field" and r[1] == ("param", 1) and r[2] and r[2][-1] == ("f", 1 if store else 0)
    return r == ("param", 1)


def r_primw(F, cfg):
    R = Result("R-PRIMW", "SIMD load/store primitives move exactly the bytes their name promises; array wrappers pass as_ptr().add(index) of their own receiver")
    extents = {}

    def extent(mb, scalar, depth=0):
        """Max byte extent accessed relative to the pointer parameter (param 1) of a primitive, or None if unknown."""
        if mb.id in extents:
            return extents[mb.id]
        if depth > 6:
            return None
        best = 0
        ok = True
        for bi, t in mb.calls():
            c = F.callee_of(t)
            if c is None:
                continue
            if _is_intrinsic(c):
                nm = _iname(c)
                if nm in INTRINSIC_BYTES:
                    nbytes = INTRINSIC_BYTES[nm]
                    for a in t["args"]:
                        at = mb.ty(a["p"][0]) if "p" in a and len(a["p"]) == 1 else (F.types[a["c"]["t"]] if "c" in a and "t" in a["c"] else None)
                        if at is None or at["k"] != "ptr":
                            continue
                        pe = _ptr_expr(mb, mb.expr(a), scalar)
                        if pe is None or pe[0][0] != "param":
                            ok = False
                        else:
                            best = max(best, pe[1] + nbytes)
                elif any(x in nm for x in ("gather", "scatter", "maskload", "maskstore")):
                    ok = False
                continue
            if c["local"] and c.get("tr") in VECTOR_TRAITS:
                m = c["p"].rsplit("::", 1)[1]
                if m not in PRIM_K:
                    continue
                cb = F.bodies.get(c.get("res", c["id"]))
                if cb is None or "res" not in c:
                    ok = False
                    continue
                st = F.ts(cb.r["self_ty"]) if "self_ty" in cb.r else None
                sub = extent(cb, VECTOR_SCALAR.get(st, scalar), depth + 1)
                pe = _ptr_expr(mb, mb.expr(t["args"][0]), scalar)
                if sub is None or pe is None or pe[0][0] != "param":
                    ok = False
                else:
                    best = max(best, pe[1] + sub)
        extents[mb.id] = best if ok else None
        return extents[mb.id]

    n = 0
    for imp, st in _vector_impls(F):
        scalar = VECTOR_SCALAR[st]
        for it in imp["items"]:
            if it["name"] not in PRIM_K:
                continue
            mb = F.bodies.get(it["id"])
            if mb is None:
                continue
            n += 1
            k = PRIM_K[it["name"]]
            # the vector a full access moves: Self for 256/128-bit traits
            want = (VECTOR_BYTES[st] if k is None else k * COMPLEX_BYTES[scalar])
            if k is not None and imp["trait"].endswith("AvxVector256") and it["name"] in ("load_partial1_complex", "load_partial2_complex", "load_partial3_complex",
                                                                                       "store_partial1_complex", "store_partial2_complex", "store_partial3_complex"):
                want = k * COMPLEX_BYTES[scalar]
            ext = extent(mb, scalar)
            key = "%s::%s" % (st.split("::")[-1], it["name"])
            # bodies that only panic (unimplemented!) move nothing
            if region_panics(F, mb, 0):
                R.ok({"primitive": key, "body": "unimplemented!() (moves nothing)"}, nontrivial=True)
                continue
            if ext is None:
                R.violation("primw:unknown:%s" % key, mb.where(), "cannot bound the bytes moved by primitive %s" % mb.name)
            elif ext != want:
                R.violation("primw:bytes:%s" % key, mb.where(), "%s moves %d bytes from its pointer but its contract is %d bytes (%s complex %s)" % (
                    mb.name, ext, want, "a full vector of" if k is None else k, scalar))
            else:
                R.ok({"primitive": key, "bytes": ext, "complex_elements": ext // COMPLEX_BYTES[scalar]}, nontrivial=True, sample_cap=30)
    R.metric("vector_primitives", n)
    # width table used by R-KBOUND agrees with the primitives
    for (fam, el), kk in sorted(VECTOR_COMPLEX.items()):
        vec = {("sse", "f32"): "std::arch::x86_64::__m128", ("sse", "f64"): "std::arch::x86_64::__m128d",
               ("avx", "f32"): "std::arch::x86_64::__m256", ("avx", "f64"): "std::arch::x86_64::__m256d"}[(fam, el)]
        if VECTOR_BYTES[vec] // COMPLEX_BYTES[el] != kk:
            R.violation("primw:table:%s:%s" % (fam, el), "rules/kbound.py", "width table disagrees with vector size")
    # ---- array wrappers
    nw = 0
    for imp in F.impls:
        tr = imp.get("trait")
        if tr not in ACCESS_TRAITS:
            continue
        st = F.types[imp["self_ty"]]
        is_db = st["k"] == "adt" and st["p"] == "array_utils::DoubleBuf"
        for it in imp["items"]:
            mb = F.bodies.get(it["id"])
            if mb is None or it["name"] in ("input_ptr",):
                continue
            nw += 1
            name = it["name"]
            store = name.startswith("store")
            idx_param = mb.argc  # index is the last parameter
            key = "%s for %s :: %s" % (tr.split("::")[-1], st["s"], name)
            good = False
            why = "no forwarding call found"
            for bi, t in mb.calls():
                c = F.callee_of(t)
                if c is None:
                    continue
                cname = c["p"].rsplit("::", 1)[1]
                if is_db:
                    if c.get("tr") == tr or (c.get("tr") in ACCESS_TRAITS and cname == name):
                        # self.input.<same>(index) / self.output.<same>(data, index)
                        rr = mb.root(t["args"][0])
                        ir = mb.root(t["args"][-1])
                        fld = rr[2][-1][1] if rr[0] == "field" and rr[1] == ("param", 1) else None
                        want_f = 1 if store else 0
                        if cname != name:
                            why = "forwards to %s" % cname
                        elif fld != want_f:
                            why = "uses DoubleBuf field %s for a %s" % (fld, "store" if store else "load")
                        elif ir != ("param", idx_param):
                            why = "index is not forwarded unchanged"
                        else:
                            good = True
                    elif "get_unchecked" in c["p"]:
                        rr = mb.root(t["args"][0])
                        ir = mb.root(t["args"][1])
                        fld = rr[2][-1][1] if rr[0] == "field" and rr[1] == ("param", 1) else None
                        if fld == (1 if store else 0) and ir == ("param", idx_param):
                            good = True
                        else:
                            why = "get_unchecked on field %s with index %s" % (fld, ir)
                    elif c["local"] and c.get("tr") is None:
                        hu = _helper_unchecked_ok(F, F.bodies.get(c.get("res", c["id"])))
                        if hu and hu[0] - 1 < len(t["args"]) and hu[1] - 1 < len(t["args"]):
                            if _self_or_field(mb, t["args"][hu[0] - 1], True, store) and mb.root(t["args"][hu[1] - 1]) == ("param", idx_param):
                                good = True
                            else:
                                why = "helper %s is not applied to the right DoubleBuf side with the own index" % c["p"]
                else:
                    if c.get("tr") in VECTOR_TRAITS and cname in PRIM_K:
                        if cname != name:
                            why = "wrapper %s calls primitive %s" % (name, cname)
                            continue
                        e = mb.expr(t["args"][0])
                        # add(as_ptr(self), index)
                        okp = False
                        if e[0] == "call" and e[1].endswith("::add") and len(e[2]) == 2:
                            base, off = e[2]
                            if off == ("param", idx_param) and base[0] == "call" and (base[1].endswith("::as_ptr") or base[1].endswith("::as_mut_ptr")):
                                if base[2] and base[2][0] == ("param", 1):
                                    okp = True
                        else:
                            # a private helper computing the element pointer: element_ptr(self, index)
                            pr = mb.root(t["args"][0])
                            if pr[0] == "call":
                                hc = F.callee_of(pr[2])
                                if hc and hc["local"]:
                                    hp = _helper_ptr_ok(F, F.bodies.get(hc.get("res", hc["id"])))
                                    if hp and hp[0] - 1 < len(pr[2]["args"]) and hp[1] - 1 < len(pr[2]["args"]):
                                        if _self_or_field(mb, pr[2]["args"][hp[0] - 1], False, store) and mb.root(pr[2]["args"][hp[1] - 1]) == ("param", idx_param):
                                            okp = True
                        if okp:
                            good = True
                        else:
                            why = "pointer is not self.as_ptr().add(index)"
                    elif "get_unchecked" in c["p"]:
                        rr = mb.root(t["args"][0])
                        ir = mb.root(t["args"][1])
                        if rr == ("param", 1) and ir == ("param", idx_param):
                            good = True
                        else:
                            why = "get_unchecked(%s) on %s" % (ir, rr)
                    elif c["local"] and c.get("tr") is None:
                        hu = _helper_unchecked_ok(F, F.bodies.get(c.get("res", c["id"])))
                        if hu and hu[0] - 1 < len(t["args"]) and hu[1] - 1 < len(t["args"]):
                            if _self_or_field(mb, t["args"][hu[0] - 1], False, store) and mb.root(t["args"][hu[1] - 1]) == ("param", idx_param):
                                good = True
                            else:
                                why = "helper %s is not applied to the own receiver with the own index" % c["p"]
            if good:
                R.ok({"wrapper": key, "forwards": "own receiver, own index"}, nontrivial=True, sample_cap=40)
            else:
                R.violation("primw:wrapper:%s" % key, mb.where(), "%s: %s" % (mb.name, why))
    R.metric("array_wrappers", nw)
    return R


def r_rawfixed(F, cfg):
    R = Result("R-RAWFIXED", "raw intrinsic loads/stores inside fixed-size kernels stay inside the chunk or a local")
    K = kb_for(F)
    n = 0
    for b in sorted(F.bodies.values(), key=lambda x: x.id):
        root = F.closure_parent(b) or b
        st = F.types[root.r["self_ty"]] if "self_ty" in root.r else None
        adt = st["p"] if st and st["k"] == "adt" else None
        if adt not in K.fixed or F.is_dead(b):
            continue
        for bi, t in b.calls():
            c = F.callee_of(t)
            if c is None:
                continue
            key = "%s:%s" % (b.name, c["p"].rsplit("::", 1)[1])
            if _is_intrinsic(c):
                nm = _iname(c)
                mem = nm in INTRINSIC_BYTES or any(x in nm for x in ("load", "store", "gather", "scatter", "stream", "lddqu"))
                if not mem:
                    continue
                n += 1
                if nm not in INTRINSIC_BYTES:
                    R.violation("rawfixed:unknown:%s" % key, b.where(t), "%s uses memory intrinsic %s whose footprint is not tabulated" % (b.name, nm))
                    continue
                nbytes = INTRINSIC_BYTES[nm]
                for a in t["args"]:
                    at = b.ty(a["p"][0]) if "p" in a and len(a["p"]) == 1 else None
                    if at is None or at["k"] != "ptr":
                        continue
                    e = b.expr(a)
                    pe = _ptr_expr(b, e, None)
                    verdict = None
                    if pe is not None and pe[0][0] == "input_ptr":
                        call = pe[0][1]
                        # receiver operand of input_ptr: find the call node again to get the operand
                        recv_bound = None
                        el = None
                        for bj, tj in b.calls():
                            cj = F.callee_of(tj)
                            if cj and cj["p"].endswith("::input_ptr") and b.expr({"p": tj["d"]}) == call or (cj and cj["p"].endswith("::input_ptr") and b.root({"p": tj["d"]})[0] == "call" and b.root({"p": tj["d"]})[2] is tj and _same_call(b, a, tj)):
                                recv_bound = K.bound(b, tj["args"][0])
                                for ga in cj["a"][1:]:
                                    if isinstance(ga, int):
                                        el = F.ts(ga)
                                break
                        if recv_bound is not None and el in COMPLEX_BYTES:
                            need = -(-(pe[1] + nbytes) // COMPLEX_BYTES[el])
                            if need <= recv_bound:
                                verdict = ("ok", "input_ptr()+%d, %d bytes = %d complex %s <= %d" % (pe[1], nbytes, need, el, recv_bound))
                            else:
                                verdict = ("bad", "reads %d complex %s from a chunk of %d" % (need, el, recv_bound))
                    else:
                        # pointer to a local / constant through a reference
                        r = b.root(a)
                        src = _ref_source_size(F, b, a)
                        if src is not None:
                            verdict = ("ok", "pointer to a %d-byte local/constant" % src) if nbytes <= src else ("bad", "reads %d bytes from a %d-byte object" % (nbytes, src))
                    if verdict is None:
                        R.violation("rawfixed:undecided:%s" % key, b.where(t), "%s: cannot bound the pointer passed to %s" % (b.name, nm))
                    elif verdict[0] == "bad":
                        R.violation("rawfixed:oob:%s" % key, b.where(t), "%s: %s %s" % (b.name, nm, verdict[1]))
                    else:
                        R.ok({"kernel": b.name, "intrinsic": nm, "why": verdict[1]}, nontrivial=True, sample_cap=12)
            elif not c["local"] and ("mut_ptr" in c["p"] or "const_ptr" in c["p"]) and c["p"].rsplit("::", 1)[1] in ("write", "read", "write_unaligned", "read_unaligned"):
                n += 1
                # MaybeUninit::as_mut_ptr().write(v) on a bounds-checked array element
                e = b.expr(t["args"][0])
                if e[0] == "call" and e[1].endswith("MaybeUninit::<T>::as_mut_ptr"):
                    R.ok({"kernel": b.name, "raw": "MaybeUninit::as_mut_ptr().write() on a checked element"}, nontrivial=True, sample_cap=4)
                else:
                    R.violation("rawfixed:ptrwrite:%s" % key, b.where(t), "%s writes/reads through a raw pointer of unknown provenance" % b.name)
            elif not c["local"] and ("get_unchecked" in c["p"] or c["p"].endswith("::add") and ("mut_ptr" in c["p"] or "const_ptr" in c["p"])):
                # raw pointer arithmetic or unchecked indexing directly in a fixed-size kernel
                if "get_unchecked" in c["p"]:
                    n += 1
                    iv = K.ival(b, b.expr(t["args"][1]))
                    bd = K.bound(b, t["args"][0])
                    if iv is TOP or bd is None or iv[1] >= bd:
                        R.violation("rawfixed:get_unchecked:%s" % key, b.where(t), "%s: get_unchecked index %s vs bound %s" % (b.name, iv, bd))
                    else:
                        R.ok(None, nontrivial=True)
    R.metric("raw_sites_in_fixed_kernels", n)
    return R


def _same_call(b, a, tj):
    r = b.root(a)
    return r[0] == "call" and r[2] is tj


def _ref_source_size(F, b, operand):
    """If a raw pointer operand is derived (only by casts / &raw) from a reference to a local or a
    promoted constant, return the size in bytes of the referent type."""
    cur = operand
    for _ in range(12):
        if "p" not in cur:
            return None
        loc = cur["p"][0]
        t = b.ty(loc)
        ds = b.whole_defs(loc)
        if t["k"] == "ref" and len(cur["p"]) == 1:
            inner = F.types[t["t"]]
            return _sizeof(inner["s"], None)
        if len(ds) != 1 or ds[0][1] == "t":
            return None
        rv = ds[0][2]["r"]
        if rv["k"] in ("use", "cast"):
            cur = rv["o"]
        elif rv["k"] == "rawptr":
            p = rv["p"]
            if len(p) == 2 and p[1] == "d":
                cur = {"p": [p[0]]}
            elif len(p) == 1:
                return _sizeof(b.tys(p[0]), None)
            else:
                return None
        else:
            return None
    return None


UNCHECKED = ("get_unchecked", "from_raw_parts")


def r_relsites(F, cfg):
    """Inventory of accesses whose in-bounds-ness is a relation between run-time lengths. NOT decided."""
    R = Result("R-RELSITES", "inventory of relational (undecided) unchecked accesses; explicit transpose guards still dominate their unchecked blocks")
    K = kb_for(F)
    per_fn = defaultdict(lambda: defaultdict(int))
    for b in F.bodies.values():
        root = F.closure_parent(b) or b
        st = F.types[root.r["self_ty"]] if "self_ty" in root.r else None
        adt = st["p"] if st and st["k"] == "adt" else None
        if adt in K.fixed:
            continue
        if root.r.get("trait") in ACCESS_TRAITS or root.r.get("trait") in VECTOR_TRAITS:
            continue  # primitives: R-PRIMW
        for bi, t in b.calls():
            c = F.callee_of(t)
            if c is None:
                continue
            if K.access_info(b, t):
                per_fn[root.name]["access-trait %s" % c["p"].rsplit("::", 1)[1]] += 1
            elif not c["local"] and "get_unchecked" in c["p"]:
                per_fn[root.name]["get_unchecked"] += 1
            elif _is_intrinsic(c) and any(x in _iname(c) for x in ("load", "store", "gather", "stream")):
                per_fn[root.name]["intrinsic %s" % _iname(c)] += 1
            elif not c["local"] and ("mut_ptr" in c["p"] or "const_ptr" in c["p"]) and c["p"].rsplit("::", 1)[1] in ("add", "offset", "sub", "read", "write"):
                per_fn[root.name]["ptr::%s" % c["p"].rsplit("::", 1)[1]] += 1
    total = 0
    for fn, kinds in sorted(per_fn.items()):
        cnt = sum(kinds.values())
        total += cnt
        R.undecided.append({"function": fn, "sites": cnt, "kinds": dict(kinds),
                            "status": "NOT DECIDED: index bound is a relation between run-time lengths; runs only on validated chunks (R-ENTRY/R-HELPER)"})
    R.metric("relational_functions", len(per_fn))
    R.metric("relational_sites", total)
    R.instances += 1
    # explicit guards of the two public-path transposes
    for name, need in (("array_utils::bitreversed_transpose", 2), ("array_utils::factor_transpose", 1)):
        b = F.fn(name)
        if b is None:
            R.violation("relsites:anchor:%s" % name, "src/array_utils.rs", "%s not found" % name)
            continue
        # first unchecked access block
        ub = [bi for bi, t in b.calls() if (F.callee_of(t) or {}).get("p", "").find("get_unchecked") >= 0]
        closure_ub = []
        for cb in F.bodies.values():
            if cb.kind == "Closure" and (F.closure_parent(cb) is b):
                closure_ub += [1 for bi, t in cb.calls() if "get_unchecked" in (F.callee_of(t) or {}).get("p", "")]
        if not ub and not closure_ub:
            R.ok({"fn": name, "unchecked": "none left"}, nontrivial=True)
            continue
        dom = b.dominators()
        guards = 0
        lens_compared = False
        for bi in range(len(b.blocks)):
            t = b.blocks[bi]["t"]
            if t["k"] != "switch":
                continue
            succs = b.succ(bi)
            if not any(region_panics(F, b, s) for s in succs):
                continue
            if ub and not all(bi in dom.get(u, set()) for u in ub):
                continue
            guards += 1
            e = b.expr(t["o"])
            if e[0] == "bin" and e[1] in ("Eq", "Ne"):
                x, y = e[2], e[3]
                if x[0] == "call" and y[0] == "call" and x[1].endswith("<impl [T]>::len") and y[1].endswith("<impl [T]>::len") \
                        and x[2] and y[2] and x[2][0][0] == "param" and y[2][0][0] == "param" and x[2][0] != y[2][0]:
                    lens_compared = True
        if guards < need:
            R.violation("relsites:guard:%s" % name, b.where(), "%s: expected >= %d panicking guards dominating the unchecked block, found %d" % (name, need, guards))
        elif not lens_compared:
            R.violation("relsites:guard-len:%s" % name, b.where(), "%s: no guard compares input.len() with output.len() before the unchecked block" % name)
        else:
            R.ok({"fn": name, "panicking_guards_dominating_unchecked": guards, "compares_slice_lengths": lens_compared}, nontrivial=True)
    return R


def r_whocalls(F, cfg):
    """The exported surface reaches data-buffer functions only through the validated entry points."""
    R = Result("R-WHOCALLS", "no exported function other than the 3x123 process_* methods (and Fft::process) takes a data buffer")
    n = 0
    entry_names = set(["process_with_scratch", "process_outofplace_with_scratch", "process_immutable_with_scratch", "process"])
    for b in sorted(F.bodies.values(), key=lambda x: x.id):
        if b.kind == "Closure" or not b.r.get("reachable"):
            continue
        if not (b.r.get("pub") or "trait" in b.r):
            continue
        n += 1
        takes_buf = False
        for i in range(1, b.argc + 1):
            ts = b.tys(i)
            if "Complex<" in ts and ("[" in ts or ts.startswith("*") or "Vec<" in ts or "Box<" in ts or "Arc<[" in ts):
                takes_buf = True
            t_ = b.ty(i)
            if t_["k"] == "param" and any(x in t_["s"] for x in ("LoadStore", "AvxArray", "SseArray", "AsMut<[", "AsRef<[", "DerefMut")):
                takes_buf = True
        if not takes_buf:
            R.ok(None)
            continue
        if b.r.get("trait") == "Fft" and b.r.get("ident") in entry_names:
            R.ok({"entry": b.name} if n % 90 == 1 else None)
            continue
        if b.r.get("trait_default") == "Fft" and b.r.get("ident") == "process":
            # the provided method: allocates exactly get_inplace_scratch_len() and delegates
            ok = _check_provided_process(F, b)
            if ok:
                R.ok({"entry": b.name, "delegates_to": "process_with_scratch with a Vec of exactly get_inplace_scratch_len()"}, nontrivial=True)
            else:
                R.violation("whocalls:process", b.where(), "the provided Fft::process no longer delegates to process_with_scratch with a scratch of get_inplace_scratch_len()")
            continue
        R.violation("whocalls:%s" % b.name, b.where(), "exported function %s takes a data buffer but is not a validated Fft entry point" % b.name)
    R.metric("exported_functions", n)
    return R


def _check_provided_process(F, b):
    calls = [(bi, t, F.callee_of(t)) for bi, t in b.calls()]
    pws = [x for x in calls if x[2] and x[2]["p"] == "Fft::process_with_scratch"]
    if len(pws) != 1:
        return False
    bi, t, c = pws[0]
    if b.root(t["args"][0]) != ("param", 1) or b.root(t["args"][1]) != ("param", 2):
        return False
    # scratch: derived from vec![..; self.get_inplace_scratch_len()]
    e = b.expr(t["args"][2])
    txt = str(e)
    return "from_elem" in txt and "Fft::get_inplace_scratch_len" in txt
