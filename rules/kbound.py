"""A-RANGE / R-KBOUND / R-RELSITES (C03): interval bounds of every load/store in fixed-size kernels.

A fixed-size kernel is any function (or closure inside one) whose enclosing `impl` is for a type
whose `Length::len` is a constant N. For each access site `recv.load*(idx)` / `recv.store*(v, idx)`:

      hi(idx) + width  <=  bound(recv)

idx     interval from constants, `for r in a..b` payloads, arithmetic, closure parameters (hull over the
        closure's call sites), captured variables (resolved in the creating function), parameters
        of helper functions (hull over all call sites);
width   1 for scalar / partial-lo / load1 accesses, k for partial-k, the vector's complex count otherwise
        (table cross-checked against the intrinsics by R-PRIMW);
bound   propagated, never assumed: the chunk closures handed to the validating helpers get N (2N for
        the unrolled pair path, the constant scratch requirement for scratch), DoubleBuf takes the
        min of its parts, array references take the array length from their type, function
        parameters take the min over all call sites.
Outcome per site: proved / violated / undecided(T). In a fixed-size kernel `undecided` is a violation
of the rule "fixed-size kernels use statically bounded indices".
"""
from collections import defaultdict

from .core import Result
from .entry import find_validators, find_helpers, const_return, ENTRY_METHODS, _param_shape

ACCESS_TRAITS = {
    "array_utils::LoadStore": "scalar",
    "array_utils::Load": "scalar",
    "sse::sse_vector::SseArray": "sse",
    "sse::sse_vector::SseArrayMut": "sse",
    "avx::avx_vector::AvxArray": "avx",
    "avx::avx_vector::AvxArrayMut": "avx",
}
# complex numbers moved by a full-vector access, per (family, element type)
VECTOR_COMPLEX = {("sse", "f32"): 2, ("sse", "f64"): 1, ("avx", "f32"): 4, ("avx", "f64"): 2}
TRANSMUTES = ("rustfft::array_utils::workaround_transmute", "rustfft::array_utils::workaround_transmute_mut")

TOP = None


def _hull(a, b_):
    if a is TOP or b_ is TOP:
        return TOP
    return (min(a[0], b_[0]), max(a[1], b_[1]))


class KB:
    def __init__(self, F):
        self.F = F
        self.fixed = {}
        for i in F.trait_impls("Length"):
            p = F.impl_self_adt(i)
            if p:
                lc = F.length_const(F.types[i["self_ty"]])
                if lc is not None:
                    self.fixed[p] = lc
        self.callers = F.callers()
        self.roles = {}       # closure id -> {param index: bound}
        self._ival_memo = {}
        self._bound_memo = {}
        self._in_progress = set()
        self._closure_sites = defaultdict(list)   # closure id -> [(caller body, term)]
        for b in F.bodies.values():
            for bi, t in b.calls():
                c = F.callee_of(t)
                if c and c.get("res") and c["res"] in F.bodies and F.bodies[c["res"]].kind == "Closure":
                    self._closure_sites[c["res"]].append((b, t))
        self._compute_roles()

    # ------------------------------------------------------------------ closure roles from entry points
    def _compute_roles(self):
        F = self.F
        validators = find_validators(F)
        helpers = find_helpers(F, validators)
        for imp in F.trait_impls("Fft"):
            adt = F.impl_self_adt(imp)
            N = self.fixed.get(adt)
            if N is None:
                continue
            for mname, (kind, getter) in ENTRY_METHODS.items():
                b = F.body_of_impl_item(imp, mname)
                if b is None:
                    continue
                gb = F.body_of_impl_item(imp, getter)
                req = const_return(F, gb) if gb else None
                for bi, t in b.calls():
                    c = F.callee_of(t)
                    if not c or c["id"] not in helpers:
                        continue
                    h = helpers[c["id"]]
                    hb = h["body"]
                    slices, usizes, fns, other = _param_shape(F, hb)
                    ndata = len(slices) - (1 if h["scratch"] else 0)
                    # required scratch actually passed (constant) -- R-ENTRY proves it equals the getter
                    rq = None
                    if h["scratch"]:
                        rr = b.root(t["args"][usizes[1] - 1])
                        if rr[0] == "const" and "v" in rr[1]:
                            rq = rr[1]["v"]
                        else:
                            rq = req
                    for k, fp in enumerate(fns):
                        r = b.root(t["args"][fp - 1])
                        if r[0] != "agg" or r[3]["r"].get("ak") != "closure":
                            continue
                        cid = r[3]["r"]["id"]
                        mult = 2 if (h["unroll"] and k == 0) else 1
                        role = {}
                        for d in range(ndata):
                            role[2 + d] = N * mult
                        if h["scratch"]:
                            role[2 + ndata] = rq
                        self.roles[cid] = role

    # ------------------------------------------------------------------ intervals
    def ival(self, b, e, depth=0):
        if depth > 30 or not isinstance(e, tuple):
            return TOP
        k = e[0]
        if k == "const":
            return (e[1], e[1]) if isinstance(e[1], int) else TOP
        if k == "cast" and e[1] == "IntToInt":
            return self.ival(b, e[3], depth + 1)
        if k == "bin":
            a = self.ival(b, e[2], depth + 1)
            c = self.ival(b, e[3], depth + 1)
            op = e[1]
            if op in ("Rem",) and c is not TOP and c[0] == c[1] and c[0] > 0:
                return (0, c[0] - 1)
            if a is TOP or c is TOP:
                return TOP
            if op in ("Add", "AddUnchecked", "AddWithOverflow"):
                return (a[0] + c[0], a[1] + c[1])
            if op in ("Mul", "MulUnchecked", "MulWithOverflow"):
                if a[0] < 0 or c[0] < 0:
                    return TOP
                return (a[0] * c[0], a[1] * c[1])
            if op in ("Sub", "SubUnchecked", "SubWithOverflow"):
                lo = a[0] - c[1]
                if lo < 0:
                    return TOP
                return (lo, a[1] - c[0])
            if op == "Div" and c[0] == c[1] and c[0] > 0:
                return (a[0] // c[0], a[1] // c[0])
            if op == "Shl" and c[0] == c[1]:
                return (a[0] << c[0], a[1] << c[0])
            if op == "Shr" and c[0] == c[1]:
                return (a[0] >> c[0], a[1] >> c[0])
            return TOP
        if k == "field":
            base, path = e[1], e[2]
            # Option payload of Iterator::next
            if base[0] == "call" and base[1].endswith("Iterator::next") and path and path[0] == ("dc", 1):
                it = base[2][0] if base[2] else None
                rng = self.iter_range(b, it, depth + 1)
                if rng is TOP:
                    return TOP
                kind, lo, hi = rng
                rest = path[1:]
                if kind == "range" and rest == (("f", 0),):
                    return (lo, hi)
                if kind == "enumerate" and rest == (("f", 0), ("f", 0)):
                    return (lo, hi)
                return TOP
            # captured variable of a closure
            if base == ("param", 1) and b.kind == "Closure" and path and path[0][0] == "f":
                return self.upvar_ival(b, path, depth + 1)
            return TOP
        if k == "param":
            return self.param_ival(b, e[1], depth + 1)
        if k == "multi":
            vals = None
            for (bi, si, n) in b.whole_defs(e[1]):
                if si == "t":
                    return TOP
                rv = n["r"]
                if rv["k"] != "use":
                    return TOP
                v = self.ival(b, b.expr(rv["o"]), depth + 1)
                if v is TOP:
                    return TOP
                vals = v if vals is None else _hull(vals, v)
            return vals if vals is not None else TOP
        return TOP

    def iter_range(self, b, it, depth):
        """Value range produced by an iterator expression: ('range', lo, hi) | ('enumerate', lo, hi)."""
        if it is None or depth > 30:
            return TOP
        e = it
        # &mut iter  ->  into_iter(X)
        if e[0] == "call" and e[1].endswith("IntoIterator::into_iter") and e[2]:
            return self.iter_range(b, e[2][0], depth + 1)
        if e[0] == "agg" and e[1].startswith("std::ops::Range") and not e[1].startswith("std::ops::RangeInclusive") and len(e[2]) == 2:
            lo = self.ival(b, e[2][0], depth + 1)
            hi = self.ival(b, e[2][1], depth + 1)
            if lo is TOP or hi is TOP or hi[1] - 1 < lo[0]:
                return TOP if (lo is TOP or hi is TOP) else ("range", lo[0], lo[0])
            return ("range", lo[0], hi[1] - 1)
        if e[0] == "call" and e[1].endswith("Iterator::enumerate") and e[2]:
            cnt = self.iter_count(b, e[2][0], depth + 1)
            if cnt is TOP:
                return TOP
            return ("enumerate", 0, max(cnt - 1, 0))
        if e[0] == "call" and e[1].endswith("Iterator::rev") and e[2]:
            return self.iter_range(b, e[2][0], depth + 1)
        if e[0] == "call" and e[1].endswith("Iterator::skip") and e[2]:
            return self.iter_range(b, e[2][0], depth + 1)
        if e[0] == "call" and e[1].endswith("Iterator::take") and e[2]:
            return self.iter_range(b, e[2][0], depth + 1)
        return TOP

    def iter_count(self, b, e, depth):
        """Upper bound on the number of items of an iterator expression."""
        if e[0] == "call":
            name = e[1]
            if (name.endswith("::chunks_exact") or name.endswith("::chunks_exact_mut") or name.endswith("::chunks")) and len(e[2]) == 2:
                n = self.len_of(b, e[2][0], depth + 1)
                k = self.ival(b, e[2][1], depth + 1)
                if n is TOP or k is TOP or k[0] <= 0:
                    return TOP
                return -(-n // k[0]) if name.endswith("::chunks") else n // k[0]
            if name.endswith("::iter") or name.endswith("::iter_mut"):
                return self.len_of(b, e[2][0], depth + 1) if e[2] else TOP
            if name.endswith("IntoIterator::into_iter") and e[2]:
                return self.iter_count(b, e[2][0], depth + 1)
            if name.endswith("Iterator::zip") and len(e[2]) == 2:
                a = self.iter_count(b, e[2][0], depth + 1)
                c = self.iter_count(b, e[2][1], depth + 1)
                if a is TOP:
                    return c
                if c is TOP:
                    return a
                return min(a, c)
        if e[0] == "agg" and e[1].startswith("std::ops::Range") and len(e[2]) == 2:
            lo = self.ival(b, e[2][0], depth + 1)
            hi = self.ival(b, e[2][1], depth + 1)
            if lo is TOP or hi is TOP:
                return TOP
            return max(hi[1] - lo[0], 0)
        return self.len_of(b, e, depth + 1)

    def len_of(self, b, e, depth):
        """Static element count of an array/slice expression (array literals, array fields and locals by type)."""
        F = self.F
        if e[0] == "agg" and e[1] == "array":
            return len(e[2])
        if e[0] == "cast":
            return self.len_of(b, e[3], depth + 1)
        if e[0] == "call" and (e[1].endswith("::as_slice") or e[1].endswith("::as_mut_slice") or e[1].endswith("Deref::deref")) and e[2]:
            return self.len_of(b, e[2][0], depth + 1)
        if e[0] == "field" and e[1][0] == "param":
            # self.field of array type
            t = F.strip_refs(b.locals[e[1][1]])
            for el in e[2]:
                if el[0] == "f" and t["k"] == "adt":
                    adt = F.adts_by_name.get(t["p"])
                    if not adt:
                        return TOP
                    t = F.types[adt["variants"][0]["fields"][el[1]]["ty"]]
                    t = t if t["k"] != "ref" else F.types[t["t"]]
                else:
                    return TOP
            if t["k"] == "array" and isinstance(t.get("n"), int):
                return t["n"]
        return TOP

    def param_ival(self, b, i, depth):
        key = (b.id, i)
        if key in self._ival_memo:
            return self._ival_memo[key]
        if key in self._in_progress:
            return TOP
        self._in_progress.add(key)
        try:
            res = None
            sites = []
            if b.kind == "Closure":
                for (cb, t) in self._closure_sites.get(b.id, []):
                    tup = cb.root(t["args"][1]) if len(t["args"]) > 1 else None
                    if tup and tup[0] == "agg" and i - 2 < len(tup[3]["r"]["ops"]):
                        sites.append((cb, tup[3]["r"]["ops"][i - 2]))
                    else:
                        sites.append((cb, None))
            else:
                for (cb, bi, t) in self.callers.get(b.id, []):
                    if i - 1 < len(t["args"]):
                        sites.append((cb, t["args"][i - 1]))
            if not sites:
                res = TOP
            for (cb, op) in sites:
                if op is None:
                    res = TOP
                    break
                v = self.ival(cb, cb.expr(op), depth + 1)
                if v is TOP:
                    res = TOP
                    break
                res = v if res is None else _hull(res, v)
            self._ival_memo[key] = res
            return res
        finally:
            self._in_progress.discard(key)

    def upvar_operand(self, b, k):
        """(parent body, operand) of captured variable k of closure b."""
        parent = self.F.bodies.get(b.r["parent"])
        if parent is None:
            return None
        for bi, si, n in parent.iter_nodes():
            if n["k"] == "=" and n["r"]["k"] == "agg" and n["r"].get("ak") == "closure" and n["r"]["id"] == b.id:
                ops = n["r"]["ops"]
                if k < len(ops):
                    return parent, ops[k]
        return None

    def upvar_ival(self, b, path, depth):
        k = path[0][1]
        up = self.upvar_operand(b, k)
        if up is None:
            return TOP
        parent, op = up
        if len(path) > 1:
            if "p" not in op:
                return TOP
            op = {"p": op["p"] + [list(x) for x in path[1:]]}
        return self.ival(parent, parent.expr(op), depth + 1)

    # ------------------------------------------------------------------ receiver bounds
    def bound(self, b, operand, depth=0):
        """Number of complex elements guaranteed behind a receiver operand, or None."""
        F = self.F
        if depth > 25 or "p" not in operand:
            return None
        # 1. by type: reference to a fixed array
        t = b.ty(operand["p"][0]) if len(operand["p"]) == 1 else None
        if t is not None:
            tt = t
            while tt["k"] == "ref":
                tt = F.types[tt["t"]]
            if tt["k"] == "array" and isinstance(tt.get("n"), int):
                return tt["n"]
        r = b.root(operand, through_calls=TRANSMUTES)
        k = r[0]
        if k == "param":
            return self.param_bound(b, r[1], depth + 1)
        if k == "agg":
            rv = r[3]["r"]
            if rv.get("adt") == "array_utils::DoubleBuf":
                bs = [self.bound(b, o, depth + 1) for o in rv["ops"]]
                if any(x is None for x in bs):
                    return None
                return min(bs)
            if rv.get("ak") == "array":
                return len(rv["ops"])
            return None
        if k == "field":
            base, path = r[1], r[2]
            if base == ("param", 1) and b.kind == "Closure" and path and path[0][0] == "f":
                up = self.upvar_operand(b, path[0][1])
                if up is None:
                    return None
                parent, op = up
                if len(path) > 1 and "p" in op:
                    op = {"p": op["p"] + [list(x) for x in path[1:]]}
                return self.bound(parent, op, depth + 1)
            if base[0] == "call":
                c = F.callee_of(base[2])
                name = c["p"] if c else ""
                if "split_at" in name and path in ((("f", 0),), (("f", 1),)):
                    whole = self.bound(b, base[2]["args"][0], depth + 1)
                    at = self.ival(b, b.expr(base[2]["args"][1]))
                    if whole is None or at is TOP:
                        return None
                    return at[0] if path == (("f", 0),) else whole - at[1]
            if base[0] == "param":
                # field of a parameter: DoubleBuf.input/.output or an array field of self
                pt = F.strip_refs(b.locals[base[1]])
                if pt["k"] == "adt" and pt["p"] == "array_utils::DoubleBuf":
                    return self.param_bound(b, base[1], depth + 1)
                n = self.len_of(b, ("field", ("param", base[1]), path), depth + 1)
                return n if n is not TOP else None
            return None
        if k == "call":
            c = F.callee_of(r[2])
            name = c["p"] if c else ""
            args = r[2]["args"]
            if name.endswith("Deref::deref") or name.endswith("DerefMut::deref_mut") or name.endswith("::as_slice") or name.endswith("::as_mut_slice") \
                    or name.endswith("Borrow::borrow") or name.endswith("AsRef::as_ref") or name.endswith("AsMut::as_mut"):
                return self.bound(b, args[0], depth + 1)
            if name.endswith("Index::index") or name.endswith("IndexMut::index_mut"):
                whole = self.bound(b, args[0], depth + 1)
                rg = b.expr(args[1])
                if rg[0] == "agg" and whole is not None:
                    if rg[1].startswith("std::ops::RangeTo") and len(rg[2]) == 1:
                        v = self.ival(b, rg[2][0])
                        return v[0] if v is not TOP else None
                    if rg[1].startswith("std::ops::RangeFrom") and len(rg[2]) == 1:
                        v = self.ival(b, rg[2][0])
                        return whole - v[1] if v is not TOP else None
                    if rg[1].startswith("std::ops::Range") and len(rg[2]) == 2:
                        lo = self.ival(b, rg[2][0])
                        hi = self.ival(b, rg[2][1])
                        if lo is not TOP and hi is not TOP:
                            return hi[0] - lo[1]
                return None
            return None
        if k == "multi":
            # a `mut` binding re-borrowed in place (`let mut buffer = buffer;`): all defs must agree
            bs = []
            for (bi, si, n) in b.whole_defs(r[1]):
                if si == "t":
                    return None
                rv = n["r"]
                if rv["k"] == "use":
                    bs.append(self.bound(b, rv["o"], depth + 1))
                elif rv["k"] == "ref":
                    bs.append(self.bound(b, {"p": rv["p"]}, depth + 1))
                else:
                    return None
            if bs and all(x is not None for x in bs):
                return min(bs)
        return None

    def param_bound(self, b, i, depth):
        key = (b.id, i)
        if key in self._bound_memo:
            return self._bound_memo[key]
        if ("b", key) in self._in_progress:
            return None
        self._in_progress.add(("b", key))
        try:
            res = None
            if b.kind == "Closure":
                role = self.roles.get(b.id)
                if role is not None:
                    res = role.get(i)
                else:
                    vals = []
                    for (cb, t) in self._closure_sites.get(b.id, []):
                        tup = cb.root(t["args"][1]) if len(t["args"]) > 1 else None
                        if tup and tup[0] == "agg" and i - 2 < len(tup[3]["r"]["ops"]):
                            vals.append(self.bound(cb, tup[3]["r"]["ops"][i - 2], depth + 1))
                        else:
                            vals.append(None)
                    res = min(vals) if vals and all(v is not None for v in vals) else None
            else:
                vals = []
                for (cb, bi, t) in self.callers.get(b.id, []):
                    if i - 1 < len(t["args"]):
                        vals.append(self.bound(cb, t["args"][i - 1], depth + 1))
                res = min(vals) if vals and all(v is not None for v in vals) else None
            self._bound_memo[key] = res
            return res
        finally:
            self._in_progress.discard(("b", key))

    # ------------------------------------------------------------------ access sites
    def access_info(self, b, t):
        """(family, method, width or None, receiver operand, index operand) for an access call, else None."""
        F = self.F
        c = F.callee_of(t)
        if not c or c.get("tr") not in ACCESS_TRAITS:
            return None
        fam = ACCESS_TRAITS[c["tr"]]
        m = c["p"].rsplit("::", 1)[1]
        if m in ("input_ptr", "output_ptr"):
            return None
        elem = None
        for a in c["a"][1:]:
            if isinstance(a, int):
                elem = F.ts(a)
                break
        width = None
        if fam == "scalar" or m in ("load_partial_lo_complex", "store_partial_lo_complex", "load1_complex", "load_partial1_complex", "store_partial1_complex"):
            width = 1
        elif m in ("load_partial2_complex", "store_partial2_complex"):
            width = 2
        elif m in ("load_partial3_complex", "store_partial3_complex"):
            width = 3
        elif m in ("load_complex", "store_complex"):
            width = VECTOR_COMPLEX.get((fam, elem))
        return fam, m, width, t["args"][0], t["args"][-1], elem


_KB = {}


def kb_for(F):
    k = _KB.get(id(F))
    if k is None:
        _KB.clear()
        k = KB(F)
        _KB[id(F)] = k
    return k


def r_kbound(F, cfg):
    R = Result("R-KBOUND", "every load/store in a fixed-size kernel stays inside its chunk: hi(index) + width <= bound(receiver)")
    K = kb_for(F)
    n_sites = n_proved = 0
    n_const = 0
    n_dead = 0
    per_type = defaultdict(int)
    for b in sorted(F.bodies.values(), key=lambda x: x.id):
        root = F.closure_parent(b) or b
        st = F.types[root.r["self_ty"]] if "self_ty" in root.r else None
        adt = st["p"] if st and st["k"] == "adt" else None
        if adt not in K.fixed:
            continue
        if F.is_dead(b):
            nd = sum(1 for bi, t in b.calls() if K.access_info(b, t))
            if nd:
                n_dead += nd
                R.note("dead code (never called, never referenced): %s, %d access sites skipped" % (b.name, nd))
            continue
        for bi, t in b.calls():
            info = K.access_info(b, t)
            if info is None:
                continue
            fam, m, width, recv, idx, elem = info
            n_sites += 1
            per_type[adt] += 1
            e = b.expr(idx)
            iv = K.ival(b, e)
            bd = K.bound(b, recv)
            key = "%s:%s:%s" % (b.name, m, _expr_key(e))
            if e[0] == "const":
                n_const += 1
            if width is None:
                R.violation("kbound:width:%s" % key, b.where(t), "%s: cannot determine the width of %s for element type %s" % (b.name, m, elem))
                continue
            if iv is TOP or bd is None:
                what = []
                if iv is TOP:
                    what.append("index %s has no static interval" % _expr_key(e))
                if bd is None:
                    what.append("receiver has no static bound")
                R.violation("kbound:undecided:%s" % key, b.where(t), "fixed-size kernel %s (N=%d): %s.%s: %s" % (b.name, K.fixed[adt], "buffer", m, "; ".join(what)))
                continue
            if iv[1] + width > bd or iv[0] < 0:
                R.violation("kbound:oob:%s" % key, b.where(t),
                            "%s: %s at index in [%d,%d] moves %d complex element(s) but the receiver only guarantees %d (transform length %d)"
                            % (b.name, m, iv[0], iv[1], width, bd, K.fixed[adt]))
            else:
                n_proved += 1
                R.ok({"kernel": b.name, "access": m, "index": list(iv), "width": width, "bound": bd} if n_proved % 180 == 1 else None,
                     nontrivial=(e[0] != "const"))
    R.metric("fixed_size_types", len(K.fixed))
    R.metric("access_sites_in_fixed_kernels", n_sites)
    R.metric("proved", n_proved)
    R.metric("sites_in_dead_code", n_dead)
    R.metric("literal_index_sites", n_const)
    R.metric("kernel_types_with_sites", len(per_type))
    return R


def _expr_key(e, depth=0):
    if depth > 5 or not isinstance(e, tuple):
        return ".."
    k = e[0]
    if k == "const":
        return str(e[1])
    if k == "param":
        return "arg%d" % e[1]
    if k == "bin":
        return "(%s %s %s)" % (_expr_key(e[2], depth + 1), e[1], _expr_key(e[3], depth + 1))
    if k == "field":
        if e[1][0] == "call":
            return "next(%s)" % e[1][1].split("::")[-1]
        return "%s.%s" % (e[1][0], ".".join(str(x[1]) for x in e[2]))
    if k == "cast":
        return _expr_key(e[3], depth + 1)
    if k == "call":
        return e[1].split("::")[-1] + "()"
    return k
