"""Inlining of crate-private helpers and closures into an anchor body (on the dumped MIR).

Several rules judge one named function (compute_twiddle, FftPlanner::new, a validator ...). A maintainer who
extracts part of it into a private helper, or passes a closure to a small generic helper, changes nothing the
property cares about. `inlined(F, body, pred)` returns a synthetic Body in which every call of a local function /
closure accepted by `pred` is replaced by the callee's blocks (locals renumbered, parameters assigned from the
arguments, `return` turned into an assignment of the destination plus a goto), repeated to a fixed depth, so that
the rule's def-use, dominance and dataflow machinery sees one body. Calls through a generic `F: Fn*` parameter are
resolved once the closure aggregate becomes visible in the merged body.
"""
import copy

from .facts import Body

CALL_TRAITS = ("std::ops::Fn::call", "std::ops::FnMut::call_mut", "std::ops::FnOnce::call_once")


def _remap_place(p, off, promo_off):
    out = [p[0] + off]
    for e in p[1:]:
        if isinstance(e, list) and e and e[0] == "i":
            out.append(["i", e[1] + off])
        else:
            out.append(e)
    return out


def _remap_operand(o, off, promo_off):
    if not isinstance(o, dict):
        return o
    if "p" in o:
        n = dict(o)
        n["p"] = _remap_place(o["p"], off, promo_off)
        return n
    if "c" in o:
        c = o["c"]
        if isinstance(c, dict) and isinstance(c.get("promoted"), int) and promo_off:
            n = dict(o)
            n["c"] = dict(c)
            n["c"]["promoted"] = c["promoted"] + promo_off
            return n
    return o


def _remap_rvalue(r, off, promo_off):
    n = dict(r)
    for k in ("o", "a", "b"):
        if k in n:
            n[k] = _remap_operand(n[k], off, promo_off)
    if "p" in n and isinstance(n["p"], list):
        n["p"] = _remap_place(n["p"], off, promo_off)
    if "ops" in n:
        n["ops"] = [_remap_operand(x, off, promo_off) for x in n["ops"]]
    return n


def _remap_stmt(s, off, promo_off):
    n = dict(s)
    if "p" in n and isinstance(n["p"], list):
        n["p"] = _remap_place(n["p"], off, promo_off)
    if "r" in n and isinstance(n["r"], dict):
        n["r"] = _remap_rvalue(n["r"], off, promo_off)
    return n


def _remap_term(t, off, boff, promo_off):
    n = dict(t)
    k = n["k"]
    for key in ("t", "u", "otherwise"):
        if isinstance(n.get(key), int):
            n[key] = n[key] + boff
    if k == "switch":
        n["o"] = _remap_operand(n["o"], off, promo_off)
        n["cases"] = [[c[0], c[1] + boff] for c in n["cases"]]
    elif k in ("call", "tailcall"):
        n["f"] = _remap_operand(n["f"], off, promo_off)
        n["args"] = [_remap_operand(a, off, promo_off) for a in n["args"]]
        if "d" in n and isinstance(n["d"], list):
            n["d"] = _remap_place(n["d"], off, promo_off)
    elif k == "drop":
        n["p"] = _remap_place(n["p"], off, promo_off)
    elif k == "assert":
        n["o"] = _remap_operand(n["o"], off, promo_off)
    return n


def _callee_body(F, b, t):
    """Body to inline for call terminator t of body b, and whether it is a closure-style call (tupled args)."""
    c = F.callee_of(t)
    if not c:
        return None, False
    tgt = F.bodies.get(c.get("res") or c["id"])
    if tgt is not None and tgt.kind == "Closure" and c["p"] in CALL_TRAITS:
        return tgt, True
    if tgt is not None and tgt.kind == "Closure":
        return tgt, True
    if tgt is not None:
        return tgt, False
    if c["p"] in CALL_TRAITS and t["args"]:
        # call through a generic `impl Fn` value: resolve by the closure aggregate it is (in the merged body)
        r = b.root(t["args"][0])
        if r[0] == "agg" and r[3]["r"].get("ak") == "closure":
            cb = F.bodies.get(r[3]["r"]["id"])
            if cb is not None:
                return cb, True
    return None, False


def inlined(F, body, pred=None, rounds=3, max_blocks=900):
    """Synthetic Body with accepted local callees inlined. pred(callee_body) -> bool (default: crate-private
    functions and all closures)."""
    if pred is None:
        pred = default_pred
    cache = getattr(F, "_inline_cache", None)
    if cache is None:
        cache = F._inline_cache = {}
    key = (body.id, getattr(pred, "__name__", str(id(pred))), rounds)
    if key in cache:
        return cache[key]
    rec = {k: v for k, v in body.r.items() if k not in ("blocks", "locals", "promoted", "names")}
    rec["blocks"] = copy.deepcopy(body.r["blocks"])
    rec["locals"] = list(body.r["locals"])
    rec["promoted"] = list(body.r.get("promoted", []))
    rec["names"] = [list(x) for x in body.r.get("names", [])]
    rec["inlined"] = []
    cur = Body(rec, F)
    stack_names = {body.id}
    for _ in range(rounds):
        changed = False
        nb = len(cur.blocks)
        for bi in range(nb):
            t = cur.blocks[bi]["t"]
            if t["k"] != "call" or t.get("_noinline"):
                continue
            g, tupled = _callee_body(F, cur, t)
            if g is None or g.id in stack_names or not pred(g):
                continue
            if len(cur.blocks) + len(g.blocks) > max_blocks:
                continue
            off = len(rec["locals"])
            boff = len(rec["blocks"])
            poff = len(rec["promoted"])
            rec["locals"].extend(g.r["locals"])
            rec["promoted"].extend(g.r.get("promoted", []))
            for (nm, pl) in g.r.get("names", []):
                rec["names"].append([nm, _remap_place(pl, off, poff)])
            # parameter passing
            pre = []
            if tupled:
                if g.argc >= 1 and t["args"]:
                    pre.append({"k": "=", "p": [off + 1], "r": {"k": "use", "o": t["args"][0]}, "l": t.get("l")})
                if g.argc >= 2 and len(t["args"]) > 1 and "p" in t["args"][1]:
                    tp = t["args"][1]["p"]
                    for k in range(g.argc - 1):
                        pre.append({"k": "=", "p": [off + 2 + k], "r": {"k": "use", "o": {"p": list(tp) + [["f", k]]}}, "l": t.get("l")})
            else:
                for k in range(min(g.argc, len(t["args"]))):
                    pre.append({"k": "=", "p": [off + 1 + k], "r": {"k": "use", "o": t["args"][k]}, "l": t.get("l")})
            for gb in g.blocks:
                nbk = {"s": [_remap_stmt(s, off, poff) for s in gb["s"]], "t": _remap_term(gb["t"], off, boff, poff)}
                if gb.get("cleanup"):
                    nbk["cleanup"] = True
                if nbk["t"]["k"] == "return":
                    if t.get("t") is not None:
                        nbk["s"].append({"k": "=", "p": list(t["d"]), "r": {"k": "use", "o": {"p": [off], "mv": True}}, "l": t.get("l")})
                        nbk["t"] = {"k": "goto", "t": t["t"]}
                    else:
                        nbk["t"] = {"k": "unreachable"}
                rec["blocks"].append(nbk)
            cur.blocks[bi]["s"].extend(pre)
            cur.blocks[bi]["t"] = {"k": "goto", "t": boff, "l": t.get("l"), "_inlined_call": g.name}
            rec["inlined"].append(g.name)
            changed = True
            cur = Body(rec, F)       # reset the def-use / dominator caches
        if not changed:
            break
    cur = Body(rec, F)
    cache[key] = cur
    return cur


def default_pred(g):
    """Closures and crate-private free functions / methods (not reachable from outside the crate)."""
    if g.kind == "Closure":
        return True
    if g.r.get("reachable") or g.r.get("pub"):
        return False
    if "trait" in g.r:
        return False
    return len(g.blocks) <= 120


def any_local_pred(g):
    return g.kind == "Closure" or ("trait" not in g.r and len(g.blocks) <= 160)
