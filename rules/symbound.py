"""A-SYM / R-SYMBOUND (C03): symbolic bounds for accesses in kernels whose length is a run-time value.

R-KBOUND decides accesses in fixed-size kernels with intervals.  The kernels of the variable-length
algorithms index with expressions such as `c*V + (len/R)*i` and are out of reach of intervals.  This
module decides the part of them whose safety follows from *the function's own arithmetic*:

  index, width and receiver length are evaluated to polynomials over symbolic atoms
      L            the value of a pure `&self` getter (`Length::len(self)`, a scratch getter) or a field of self
      q, r         quotient / remainder atoms introduced by `x / d`, `x % d` (d a positive constant), tied by
                   the identity  x = q*d + r,  0 <= r < d
      it           loop variables (`for i in a..b`, `.take(n).enumerate()`), a <= it <= b-1
      cp           closure parameters called with literal arguments (hull / exact set of the literals)
      opaque       any other non-negative machine integer
  generic SIMD widths (`A::VectorType::COMPLEX_PER_VECTOR`) are made concrete by instantiating the
  generic parameter with every implementor of its numeric trait (f32, f64) and analysing each instance;
  path conditions are read from the switch edges that dominate the site (`if r > 2`, `match r { 1 => ..`).

  PROVED    bound - index - width  is, after substituting the q/r identities and the range ends of the
            bounded atoms, a polynomial all of whose coefficients are non-negative (sound, incomplete);
  REFUTED   the model is closed (every atom is a function of L and of loop variables, every dominating
            condition was understood, L's construction `x * R` was read from the constructor) and a concrete
            value of L satisfying the path conditions makes the access leave the receiver: a VIOLATION with
            the witness;
  UNDECIDED everything else: inventoried, never an alarm.
"""
from collections import defaultdict
from itertools import product

from .core import Result
from .entry import find_validators, find_helpers, ENTRY_METHODS, _param_shape
from .kbound import kb_for, ACCESS_TRAITS, _expr_key

TRANSMUTE_NAMES = ("array_utils::workaround_transmute", "array_utils::workaround_transmute_mut")
PASS_THROUGH = ("Deref::deref", "DerefMut::deref_mut", "::as_slice", "::as_mut_slice", "Borrow::borrow", "BorrowMut::borrow_mut",
                "AsRef::as_ref", "AsMut::as_mut", "::as_ref", "::as_mut")


# --------------------------------------------------------------------------- polynomials
class Poly:
    __slots__ = ("t",)

    def __init__(self, t=None):
        self.t = {k: v for k, v in (t or {}).items() if v != 0}

    @staticmethod
    def const(c):
        return Poly({(): c})

    @staticmethod
    def atom(a):
        return Poly({(a,): 1})

    def __add__(self, o):
        o = _P(o)
        t = dict(self.t)
        for k, v in o.t.items():
            t[k] = t.get(k, 0) + v
        return Poly(t)

    def __neg__(self):
        return Poly({k: -v for k, v in self.t.items()})

    def __sub__(self, o):
        return self + (-_P(o))

    def __mul__(self, o):
        o = _P(o)
        t = {}
        for k1, v1 in self.t.items():
            for k2, v2 in o.t.items():
                k = tuple(sorted(k1 + k2, key=repr))
                t[k] = t.get(k, 0) + v1 * v2
        return Poly(t)

    def is_const(self):
        return all(k == () for k in self.t)

    def const_value(self):
        return self.t.get((), 0) if self.is_const() else None

    def atoms(self):
        s = set()
        for k in self.t:
            s.update(k)
        return s

    def degree(self):
        return max((len(k) for k in self.t), default=0)

    def subst(self, atom, poly):
        if atom not in self.atoms():
            return self
        res = Poly()
        for k, v in self.t.items():
            n = sum(1 for a in k if a == atom)
            rest = tuple(a for a in k if a != atom)
            term = Poly({rest: v})
            for _ in range(n):
                term = term * poly
            res = res + term
        return res

    def key(self):
        return tuple(sorted(((tuple(repr(a) for a in k), v) for k, v in self.t.items())))

    def eval(self, env):
        tot = 0
        for k, v in self.t.items():
            m = v
            for a in k:
                m *= env[a]
            tot += m
        return tot

    def nonneg_coeffs(self):
        return all(v >= 0 for v in self.t.values())

    def show(self):
        if not self.t:
            return "0"
        parts = []
        for k, v in sorted(self.t.items(), key=lambda kv: (len(kv[0]), repr(kv[0]))):
            names = "*".join(_aname(a) for a in k)
            if not k:
                parts.append(str(v))
            elif v == 1:
                parts.append(names)
            else:
                parts.append("%d*%s" % (v, names))
        return " + ".join(parts).replace("+ -", "- ")


def _P(x):
    return x if isinstance(x, Poly) else Poly.const(x)


def _aname(a):
    k = a[0]
    if k == "self":
        return a[1].rsplit("::", 1)[-1] + "()" if a[2] == "call" else "self." + ".".join(str(x) for x in a[1])
    if k == "q":
        return "quot%d" % a[1]
    if k == "r":
        return "rem%d" % a[1]
    if k == "it":
        return "i%s" % a[2]
    if k == "cp":
        return "arg%d" % a[2]
    return "%s%s" % (k, a[-1] if len(a) > 1 else "")


class Undecided(Exception):
    pass


# --------------------------------------------------------------------------- the analysis context
class SymCtx:
    """One context per (root ADT, generic instantiation).  Atoms of kind 'self' are relative to the one
    receiver object `self` shared by all methods of the ADT that call each other with their own self."""

    def __init__(self, F, K, env):
        self.F = F
        self.K = K
        self.env = env                  # generic parameter name -> concrete type id
        self.info = {}                  # atom -> {"lo": Poly|None, "hi": Poly|None}
        self.expand = {}                # atom -> Poly (identity x = q*d + r)
        self.qr = {}                    # (numerator key, den) -> (q atom, r atom)
        self.eqs = []                   # Polys known to be == 0 (quotient identities that could not be turned into a substitution)
        self.facts = []                 # Polys known to be >= 0 (from safe slicing that would have panicked otherwise)
        self.side = []                  # Polys that must be >= 0 for the model to be faithful (usize subtraction)
        self.cp_sets = {}               # closure-parameter atom -> exact set of literal arguments
        self.opaque = set()             # atoms whose value the model does not define
        self._memo_plen = {}
        self._memo_psym = {}
        self._busy = set()
        self._n = 0

    # ---- atoms
    def fresh(self, kind, *rest):
        self._n += 1
        return (kind,) + tuple(rest) + (self._n,)

    def quot_rem(self, num, den):
        """Atoms (q, r) with num = q*den + r, 0 <= r < den; den is a positive int or a Poly (then den >= 1 is a
        fact: the division would have panicked otherwise)."""
        dkey = den if isinstance(den, int) else den.key()
        key = (num.key(), dkey)
        if key not in self.qr:
            self._n += 1
            q = ("q", self._n)
            r = ("r", self._n)
            dp = _P(den)
            self.qr[key] = (q, r, num, dp)
            self.info[q] = {"lo": Poly.const(0), "hi": None}
            self.info[r] = {"lo": Poly.const(0), "hi": dp - 1}
            done = False
            if isinstance(den, int) and num.degree() == 1 and len(num.t) == 1:
                (mono, coef), = num.t.items()
                if coef == 1 and len(mono) == 1 and mono[0] not in self.expand:
                    self.expand[mono[0]] = Poly.atom(q) * den + Poly.atom(r)
                    done = True
            if not done:
                self.eqs.append(num - Poly.atom(q) * dp - Poly.atom(r))
            if not isinstance(den, int):
                self.facts.append(dp - 1)
        q, r = self.qr[key][:2]
        return q, r

    # ---- generic instantiation
    def resolve_type(self, tid, depth=0):
        F = self.F
        t = F.types[tid]
        if depth > 6:
            return None
        if t["k"] == "param":
            return self.env.get(t["n"])
        if t["k"] == "alias" and t.get("p"):
            if not t["a"] or not isinstance(t["a"][0], int):
                return None
            st = self.resolve_type(t["a"][0], depth + 1)
            if st is None:
                return None
            trait, name = t["p"].rsplit("::", 1)
            for imp in F.impls:
                if imp.get("trait") == trait and imp["self_ty"] == st:
                    for it in imp["items"]:
                        if it["name"] == name and "ty" in it:
                            return it["ty"]
            return None
        if t["k"] in ("adt", "prim"):
            return tid
        return None

    def assoc_const(self, c):
        """Value of an unevaluated associated constant `<X as Trait>::NAME` under the instantiation."""
        F = self.F
        if "v" in c and isinstance(c["v"], int):
            return c["v"]
        p = c.get("p")
        if not p or not c.get("a") or not isinstance(c["a"][0], int):
            if p:
                lit = F.const_literal(p)
                if lit and isinstance(lit.get("v"), int):
                    return lit["v"]
            return None
        st = self.resolve_type(c["a"][0])
        if st is None:
            return None
        trait, name = p.rsplit("::", 1)
        lit = F.const_literal("<%s as %s>::%s" % (F.ts(st), trait, name))
        if lit and isinstance(lit.get("v"), int):
            return lit["v"]
        return None

    # ---- who is `self`
    def is_self(self, b, e):
        """Does expression e denote (a reference to) the receiver object of the context?"""
        if e[0] == "param" and e[1] == 1 and b.kind != "Closure" and "self_ty" in b.r:
            return b.var_name(1) == "self" or True
        if e[0] == "field" and e[1] == ("param", 1) and b.kind == "Closure" and len(e[2]) == 1 and e[2][0][0] == "f":
            up = self.K.upvar_operand(b, e[2][0][1])
            if up is None:
                return False
            parent, op = up
            return self.is_self(parent, parent.expr(op, rich=True))
        return False

    def self_atom(self, what, kind):
        a = ("self", what, kind)
        if a not in self.info:
            self.info[a] = {"lo": Poly.const(0), "hi": None}
        return a

    def getter_atom(self, b, c):
        """`self.method()` with no other argument: a pure function of self (no interior mutability, C11)."""
        F = self.F
        target = c.get("res") or c["id"]
        cb = F.bodies.get(target)
        # normalise trivial getters to the field they return, so `self.len()` and `self.len` agree
        seen = 0
        while cb is not None and seen < 4:
            seen += 1
            r = cb.root({"p": [0]})
            if r[0] == "const" and isinstance(r[1].get("v"), int):
                return Poly.const(r[1]["v"])
            if r[0] == "field" and r[1] == ("param", 1) and cb.kind != "Closure":
                return Poly.atom(self.self_atom(tuple(x[1] for x in r[2] if x[0] == "f"), "field"))
            if r[0] == "call":
                t = r[2]
                cc = F.callee_of(t)
                if cc and len(t["args"]) >= 1:
                    # `(|this| this.len)(self)` : closure call with (closure, (self,))
                    tgt = F.bodies.get(cc.get("res") or cc["id"])
                    if tgt is not None and tgt.kind == "Closure" and len(t["args"]) == 2:
                        tup = cb.root(t["args"][1])
                        if tup[0] == "agg" and len(tup[3]["r"]["ops"]) == 1 and cb.root(tup[3]["r"]["ops"][0]) == ("param", 1):
                            rr = tgt.root({"p": [0]})
                            if rr[0] == "field" and rr[1] == ("param", 2):
                                return Poly.atom(self.self_atom(tuple(x[1] for x in rr[2] if x[0] == "f"), "field"))
                            if rr[0] == "const" and isinstance(rr[1].get("v"), int):
                                return Poly.const(rr[1]["v"])
                    elif tgt is not None and len(t["args"]) == 1 and cb.root(t["args"][0]) == ("param", 1):
                        cb = tgt
                        continue
            break
        return Poly.atom(self.self_atom(c.get("resp") or c["p"], "call"))

    # ---- scalar expressions
    def sym(self, b, e, depth=0):
        if depth > 40 or not isinstance(e, tuple):
            raise Undecided("depth")
        k = e[0]
        if k == "const":
            c = e[3] if len(e) > 3 else {}
            v = self.assoc_const(c) if c else (e[1] if isinstance(e[1], int) else None)
            if v is None and isinstance(e[1], int):
                v = e[1]
            if v is None:
                raise Undecided("constant %s" % (e[1],))
            return Poly.const(v)
        if k == "cast" and e[1] == "IntToInt":
            return self.sym(b, e[3], depth + 1)
        if k == "bin":
            op = e[1]
            if op in ("Add", "AddUnchecked", "AddWithOverflow"):
                return self.sym(b, e[2], depth + 1) + self.sym(b, e[3], depth + 1)
            if op in ("Mul", "MulUnchecked", "MulWithOverflow"):
                return self.sym(b, e[2], depth + 1) * self.sym(b, e[3], depth + 1)
            if op in ("Sub", "SubUnchecked", "SubWithOverflow"):
                a = self.sym(b, e[2], depth + 1)
                c = self.sym(b, e[3], depth + 1)
                d = a - c
                if d.const_value() is None or d.const_value() < 0:
                    self.side.append(d)
                return d
            if op in ("Div", "Rem"):
                a = self.sym(b, e[2], depth + 1)
                cp = self.sym(b, e[3], depth + 1)
                c = cp.const_value()
                if c is not None and c <= 0:
                    raise Undecided("division by zero")
                if c is not None and a.const_value() is not None:
                    return Poly.const(a.const_value() // c if op == "Div" else a.const_value() % c)
                q, r = self.quot_rem(a, c if c is not None else cp)
                return Poly.atom(q if op == "Div" else r)
            if op == "Shl":
                c = self.sym(b, e[3], depth + 1).const_value()
                if c is None:
                    raise Undecided("shift")
                return self.sym(b, e[2], depth + 1) * (1 << c)
            if op == "Shr":
                c = self.sym(b, e[3], depth + 1).const_value()
                if c is None:
                    raise Undecided("shift")
                a = self.sym(b, e[2], depth + 1)
                q, r = self.quot_rem(a, 1 << c)
                return Poly.atom(q)
            raise Undecided("operator %s" % op)
        if k == "un" and e[1] == "PtrMetadata":
            alts = self.symlen(b, e[2], depth + 1)
            if len(alts) != 1:
                raise Undecided("length of a two-part buffer")
            return alts[0]
        if k == "param":
            return self.param_sym(b, e[1], depth + 1)
        if k == "call":
            name, args = e[1], e[2]
            if name.endswith("<impl [T]>::len") and len(args) == 1:
                alts = self.symlen(b, args[0], depth + 1)
                if len(alts) != 1:
                    raise Undecided("length of a two-part buffer")
                return alts[0]
            if len(args) == 1 and self.is_self(b, args[0]) and len(e) > 5:
                t = b.blocks[e[5]]["t"]
                c = self.F.callee_of(t)
                if c and c.get("local", True):
                    return self.getter_atom(b, c)
            raise Undecided("call %s" % name.rsplit("::", 1)[-1])
        if k == "field":
            base, path = e[1], e[2]
            if base[0] == "call" and base[1].endswith("Iterator::next") and path and path[0] == ("dc", 1):
                return self.loop_var(b, base, path[1:], depth + 1)
            if base == ("param", 1) and b.kind == "Closure" and path and path[0][0] == "f":
                up = self.K.upvar_operand(b, path[0][1])
                if up is None:
                    raise Undecided("captured variable")
                parent, op = up
                if len(path) > 1:
                    if "p" not in op:
                        raise Undecided("captured variable")
                    op = {"p": op["p"] + [list(x) for x in path[1:]]}
                return self.sym(parent, parent.expr(op, rich=True), depth + 1)
            if base[0] == "param" and self.is_self(b, base) and all(x[0] == "f" for x in path):
                return Poly.atom(self.self_atom(tuple(x[1] for x in path), "field"))
            raise Undecided("projection")
        if k == "multi":
            vals = []
            for (bi, si, n) in b.whole_defs(e[1]):
                if si == "t" or n["r"]["k"] != "use":
                    raise Undecided("variable %s is reassigned (loop-carried)" % b.var_name(e[1]))
                vals.append(self.sym(b, b.expr(n["r"]["o"], rich=True), depth + 1))
            if vals and all(v.key() == vals[0].key() for v in vals):
                return vals[0]
            raise Undecided("variable %s is reassigned (loop-carried)" % b.var_name(e[1]))
        raise Undecided("expression %s" % k)

    def loop_var(self, b, base, rest, depth):
        """Atom for the payload of `iter.next()`; bounds from the iterator expression."""
        key = ("it", b.id, base[-1] if isinstance(base[-1], int) else 0, tuple(rest))
        it = base[2][0] if base[2] else None
        kind, lo, hi = self.iter_range(b, it, depth + 1)
        if kind == "range" and tuple(rest) == (("f", 0),):
            pass
        elif kind == "enumerate" and tuple(rest) == (("f", 0), ("f", 0)):
            pass
        else:
            raise Undecided("iterator payload")
        a = ("it", b.id, key[2])
        if a not in self.info:
            self.info[a] = {"lo": lo, "hi": hi}
        return Poly.atom(a)

    def iter_range(self, b, e, depth):
        if e is None or depth > 40:
            raise Undecided("iterator")
        if e[0] == "call":
            n = e[1]
            if n.endswith("IntoIterator::into_iter") and e[2]:
                return self.iter_range(b, e[2][0], depth + 1)
            if n.endswith("Iterator::enumerate") and e[2]:
                cnt = self.iter_count(b, e[2][0], depth + 1)
                return ("enumerate", Poly.const(0), cnt - 1)
            if (n.endswith("Iterator::rev") or n.endswith("Iterator::skip") or n.endswith("Iterator::take") or n.endswith("Iterator::step_by")) and e[2]:
                k, lo, hi = self.iter_range(b, e[2][0], depth + 1)
                if n.endswith("Iterator::take") and k == "range" and len(e[2]) == 2:
                    # first n items of lo..: at most lo + n - 1
                    try:
                        cnt = self.sym(b, e[2][1], depth + 1)
                        return (k, lo, lo + cnt - 1)   # also bounded by hi; the prover may use either -- keep the take bound
                    except Undecided:
                        pass
                return (k, lo, hi)
        if e[0] == "agg" and e[1].startswith("std::ops::Range") and not e[1].startswith("std::ops::RangeInclusive") \
                and not e[1].startswith("std::ops::RangeFrom") and not e[1].startswith("std::ops::RangeTo") and len(e[2]) == 2:
            lo = self.sym(b, e[2][0], depth + 1)
            hi = self.sym(b, e[2][1], depth + 1)
            return ("range", lo, hi - 1)
        if e[0] == "agg" and e[1].startswith("std::ops::RangeInclusive") and len(e[2]) >= 2:
            lo = self.sym(b, e[2][0], depth + 1)
            hi = self.sym(b, e[2][1], depth + 1)
            return ("range", lo, hi)
        raise Undecided("iterator shape")

    def iter_count(self, b, e, depth):
        """Upper bound (Poly) on the number of items an iterator yields."""
        if e[0] == "call":
            n = e[1]
            if n.endswith("Iterator::take") and len(e[2]) == 2:
                return self.sym(b, e[2][1], depth + 1)
            if (n.endswith("::chunks_exact") or n.endswith("::chunks_exact_mut")) and len(e[2]) == 2:
                alts = self.symlen(b, e[2][0], depth + 1)
                k = self.sym(b, e[2][1], depth + 1).const_value()
                if len(alts) != 1 or not k or k <= 0:
                    raise Undecided("chunk count")
                q, r = self.quot_rem(alts[0], k)
                return Poly.atom(q)
            if (n.endswith("::iter") or n.endswith("::iter_mut")) and e[2]:
                alts = self.symlen(b, e[2][0], depth + 1)
                if len(alts) != 1:
                    raise Undecided("iterator length")
                return alts[0]
            if n.endswith("IntoIterator::into_iter") and e[2]:
                return self.iter_count(b, e[2][0], depth + 1)
            if n.endswith("Iterator::zip") and len(e[2]) == 2:
                for sub in e[2]:
                    try:
                        return self.iter_count(b, sub, depth + 1)
                    except Undecided:
                        continue
                raise Undecided("zip length")
            if (n.endswith("Iterator::rev") or n.endswith("Iterator::enumerate")) and e[2]:
                return self.iter_count(b, e[2][0], depth + 1)
        if e[0] == "agg" and e[1].startswith("std::ops::Range") and len(e[2]) == 2 and not e[1].startswith("std::ops::RangeInclusive"):
            d = self.sym(b, e[2][1], depth + 1) - self.sym(b, e[2][0], depth + 1)
            return d
        raise Undecided("iterator length")

    def param_sym(self, b, i, depth):
        key = (b.id, i)
        if key in self._memo_psym:
            v = self._memo_psym[key]
            if v is None:
                raise Undecided("parameter %s" % b.var_name(i))
            return v
        if ("s", key) in self._busy:
            raise Undecided("recursion")
        self._busy.add(("s", key))
        try:
            sites = self._arg_sites(b, i)
            vals = []
            try:
                if not sites:
                    raise Undecided("parameter %s of a function without known callers" % b.var_name(i))
                for (cb, op) in sites:
                    if op is None:
                        raise Undecided("parameter %s" % b.var_name(i))
                    vals.append(self.sym(cb, cb.expr(op, rich=True), depth + 1))
            except Undecided:
                self._memo_psym[key] = None
                raise
            if all(v.key() == vals[0].key() for v in vals):
                res = vals[0]
            elif all(v.const_value() is not None for v in vals):
                a = ("cp", b.id, i)
                cs = sorted(set(v.const_value() for v in vals))
                self.info[a] = {"lo": Poly.const(cs[0]), "hi": Poly.const(cs[-1])}
                self.cp_sets[a] = cs
                res = Poly.atom(a)
            else:
                self._memo_psym[key] = None
                raise Undecided("parameter %s differs between call sites" % b.var_name(i))
            self._memo_psym[key] = res
            return res
        finally:
            self._busy.discard(("s", key))

    def _arg_sites(self, b, i):
        """[(caller body, operand)] for parameter i of b (closures: the tupled call arguments)."""
        K = self.K
        sites = []
        if b.kind == "Closure":
            for (cb, t) in K._closure_sites.get(b.id, []):
                tup = cb.root(t["args"][1]) if len(t["args"]) > 1 else None
                if tup and tup[0] == "agg" and i - 2 < len(tup[3]["r"]["ops"]):
                    sites.append((cb, tup[3]["r"]["ops"][i - 2]))
                else:
                    sites.append((cb, None))
        else:
            has_self = "self_ty" in b.r and b.argc >= 1 and b.var_name(1) == "self"
            for (cb, bi, t) in K.callers.get(b.id, []):
                if self.F.is_dead(cb):
                    continue
                if has_self and not self.is_self(cb, cb.expr(t["args"][0], rich=True)):
                    sites.append((cb, None))
                    continue
                if i - 1 < len(t["args"]):
                    sites.append((cb, t["args"][i - 1]))
        return sites

    # ---- lengths of slice-like values: list of alternatives, every one of which must hold
    def symlen_op(self, b, operand, depth=0):
        F = self.F
        if "p" in operand and len(operand["p"]) == 1:
            tt = b.ty(operand["p"][0])
            while tt["k"] == "ref":
                tt = F.types[tt["t"]]
            if tt["k"] == "array" and isinstance(tt.get("n"), int):
                return [Poly.const(tt["n"])]
        return self.symlen(b, b.expr(operand, rich=True), depth)

    def symlen(self, b, e, depth=0):
        if depth > 40 or not isinstance(e, tuple):
            raise Undecided("receiver")
        k = e[0]
        if k == "param":
            return self.param_len(b, e[1], depth + 1)
        if k == "agg":
            if e[1].startswith("array_utils::DoubleBuf"):
                out = []
                for o in e[2]:
                    out += self.symlen(b, o, depth + 1)
                return out
            if e[1] == "array":
                return [Poly.const(len(e[2]))]
            raise Undecided("receiver aggregate")
        if k == "cast":
            return self.symlen(b, e[3], depth + 1)
        if k == "repeat" and isinstance(e[1], int):
            return [Poly.const(e[1])]
        if k == "call":
            name, args = e[1], e[2]
            if name in TRANSMUTE_NAMES or any(name.endswith(s) for s in PASS_THROUGH):
                return self.symlen(b, args[0], depth + 1)
            if (name.endswith("Index::index") or name.endswith("IndexMut::index_mut")) and len(args) == 2:
                rg = args[1]
                if rg[0] == "agg":
                    if rg[1].startswith("std::ops::RangeTo") and len(rg[2]) == 1:
                        return [self.sym(b, rg[2][0], depth + 1)]
                    if rg[1].startswith("std::ops::RangeFull"):
                        return self.symlen(b, args[0], depth + 1)
                    if rg[1].startswith("std::ops::RangeFrom") and len(rg[2]) == 1:
                        lo = self.sym(b, rg[2][0], depth + 1)
                        out = [w - lo for w in self.symlen(b, args[0], depth + 1)]
                        self.facts += out          # indexing panics unless lo <= len
                        return out
                    if rg[1].startswith("std::ops::Range") and len(rg[2]) == 2 and not rg[1].startswith("std::ops::RangeInclusive"):
                        lo = self.sym(b, rg[2][0], depth + 1)
                        hi = self.sym(b, rg[2][1], depth + 1)
                        self.facts.append(hi - lo)
                        return [hi - lo]
                raise Undecided("slice index")
            raise Undecided("receiver from call %s" % name.rsplit("::", 1)[-1])
        if k == "field":
            base, path = e[1], e[2]
            if base == ("param", 1) and b.kind == "Closure" and path and path[0][0] == "f":
                up = self.K.upvar_operand(b, path[0][1])
                if up is None:
                    raise Undecided("captured receiver")
                parent, op = up
                if len(path) > 1:
                    if "p" not in op:
                        raise Undecided("captured receiver")
                    op = {"p": op["p"] + [list(x) for x in path[1:]]}
                return self.symlen_op(parent, op, depth + 1)
            if base[0] == "call":
                name, args = base[1], base[2]
                if ("split_at" in name) and len(args) == 2 and path in ((("f", 0),), (("f", 1),)):
                    at = self.sym(b, args[1], depth + 1)
                    whole = self.symlen(b, args[0], depth + 1)
                    rest = [w - at for w in whole]
                    self.facts += rest            # split_at panics unless at <= len
                    return [at] if path == (("f", 0),) else rest
                if name.endswith("Option::<T>::unwrap") and len(args) == 1 and args[0][0] == "call" and path == (("f", 1),) and \
                        any(args[0][1].endswith(x) for x in ("::split_first_mut", "::split_first", "::split_last_mut", "::split_last")) and args[0][2]:
                    # `let (first, rest) = x.split_first_mut().unwrap()`: rest has len(x) - 1 elements (and len(x) >= 1, or unwrap panicked)
                    whole = self.symlen(b, args[0][2][0], depth + 1)
                    rest = [w - 1 for w in whole]
                    self.facts += rest
                    return rest
                if name.endswith("Iterator::next") and path and path[0] == ("dc", 1):
                    # `for chunk in x.chunks_exact(_mut)(n)`: every chunk has exactly n elements
                    it = args[0] if args else None
                    n = self._chunk_size(b, it, depth + 1)
                    if n is not None:
                        return [n]
                raise Undecided("receiver projection")
            if base[0] == "param":
                F = self.F
                pt = F.strip_refs(b.locals[base[1]])
                if pt["k"] == "adt" and pt["p"] == "array_utils::DoubleBuf":
                    return self.param_len(b, base[1], depth + 1)
                if self.is_self(b, base) and all(x[0] == "f" for x in path):
                    # a boxed slice / array field of self
                    n = self.K.len_of(b, ("field", ("param", base[1]), path), depth + 1)
                    if n is not None:
                        return [Poly.const(n)]
                    return [Poly.atom(self.self_atom(tuple(x[1] for x in path), "len"))]
            raise Undecided("receiver projection")
        if k == "multi":
            alts = None
            for (bi, si, n) in b.whole_defs(e[1]):
                if si == "t":
                    raise Undecided("receiver reassigned")
                rv = n["r"]
                if rv["k"] == "use":
                    a = self.symlen_op(b, rv["o"], depth + 1)
                elif rv["k"] == "ref":
                    a = self.symlen_op(b, {"p": rv["p"]}, depth + 1)
                else:
                    raise Undecided("receiver reassigned")
                if alts is None:
                    alts = a
                elif [x.key() for x in a] != [x.key() for x in alts]:
                    alts = alts + a
            if alts:
                return alts
        raise Undecided("receiver %s" % k)

    def _chunk_size(self, b, it, depth):
        while it is not None and it[0] == "call":
            n = it[1]
            if (n.endswith("::chunks_exact") or n.endswith("::chunks_exact_mut")) and len(it[2]) == 2:
                try:
                    return self.sym(b, it[2][1], depth + 1)
                except Undecided:
                    return None
            if n.endswith("IntoIterator::into_iter") and it[2]:
                it = it[2][0]
                continue
            return None
        return None

    def param_len(self, b, i, depth):
        key = (b.id, i)
        if key in self._memo_plen:
            v = self._memo_plen[key]
            if v is None:
                raise Undecided("length of parameter %s" % b.var_name(i))
            return v
        if ("l", key) in self._busy:
            raise Undecided("recursion")
        self._busy.add(("l", key))
        try:
            res = None
            try:
                role = self.K.sym_roles.get(b.id) if b.kind == "Closure" else None
                if role is not None and i in role:
                    mb, op, mult = role[i]
                    res = [self.sym(mb, mb.expr(op, rich=True), depth + 1) * mult]
                else:
                    sites = self._arg_sites(b, i)
                    if not sites:
                        raise Undecided("buffer parameter %s of a function without known callers" % b.var_name(i))
                    res = []
                    seen = set()
                    for (cb, op) in sites:
                        if op is None:
                            raise Undecided("buffer parameter %s" % b.var_name(i))
                        for a in self.symlen_op(cb, op, depth + 1):
                            if a.key() not in seen:
                                seen.add(a.key())
                                res.append(a)
            except Undecided:
                self._memo_plen[key] = None
                raise
            self._memo_plen[key] = res
            return res
        finally:
            self._busy.discard(("l", key))

    # ---- path conditions
    def conditions(self, b, bi, depth=0):
        """([(Poly, op, Poly)], all_understood) for the switch edges dominating block bi (and, for closures, the
        creation site in the parent)."""
        conds = []
        ok = True
        dom = b.dominators().get(bi, {bi})
        preds = b.preds()
        for s in sorted(dom):
            ps = preds.get(s, [])
            if len(ps) != 1:
                continue
            d = ps[0]
            t = b.blocks[d]["t"]
            if t["k"] != "switch":
                continue
            targets = [c[1] for c in t["cases"]] + [t["otherwise"]]
            if targets.count(s) != 1:
                ok = ok and self._irrelevant_cond(b, b.expr(t["o"], rich=True))
                continue
            e = b.expr(t["o"], rich=True)
            case_vals = [c[0] for c in t["cases"] if c[1] == s]
            if e[0] == "discr":
                inner = e[1]
                if inner[0] == "call" and inner[1].endswith("Iterator::next"):
                    continue           # loop membership: carried by the loop-variable bounds
                ok = ok and self._irrelevant_cond(b, e)
                continue
            try:
                if e[0] == "bin" and e[1] in ("Gt", "Lt", "Ge", "Le", "Eq", "Ne"):
                    truth = not (case_vals == [0])
                    if case_vals and case_vals != [0] and case_vals != [1]:
                        ok = ok and self._irrelevant_cond(b, e)
                        continue
                    if case_vals == [1]:
                        truth = True
                    op = e[1] if truth else {"Gt": "Le", "Lt": "Ge", "Ge": "Lt", "Le": "Gt", "Eq": "Ne", "Ne": "Eq"}[e[1]]
                    conds.append((self.sym(b, e[2], depth + 1), op, self.sym(b, e[3], depth + 1)))
                elif e[0] == "call" and e[1].endswith("<impl [T]>::is_empty") and len(e[2]) == 1:
                    truth = not (case_vals == [0])
                    alts = self.symlen(b, e[2][0], depth + 1)
                    if len(alts) != 1:
                        ok = ok and self._irrelevant_cond(b, e)
                    else:
                        conds.append((alts[0], "Eq" if truth else "Ne", Poly.const(0)))
                elif e[0] == "un" and e[1] == "Not":
                    inner = e[2]
                    if inner[0] == "call" and inner[1].endswith("<impl [T]>::is_empty") and len(inner[2]) == 1:
                        truth = (case_vals == [0])
                        alts = self.symlen(b, inner[2][0], depth + 1)
                        if len(alts) != 1:
                            ok = ok and self._irrelevant_cond(b, e)
                        else:
                            conds.append((alts[0], "Eq" if truth else "Ne", Poly.const(0)))
                    else:
                        ok = ok and self._irrelevant_cond(b, e)
                else:
                    v = self.sym(b, e, depth + 1)
                    if case_vals:
                        conds.append((v, "Eq", Poly.const(case_vals[0])))
                    else:
                        for c in t["cases"]:
                            conds.append((v, "Ne", Poly.const(c[0])))
            except Undecided:
                ok = ok and self._irrelevant_cond(b, e)
        if b.kind == "Closure":
            parent = self.F.bodies.get(b.r["parent"])
            if parent is not None:
                for pbi, psi, n in parent.iter_nodes():
                    if n["k"] == "=" and n["r"]["k"] == "agg" and n["r"].get("ak") == "closure" and n["r"]["id"] == b.id:
                        c2, ok2 = self.conditions(parent, pbi, depth + 1)
                        conds += c2
                        ok = ok and ok2
                        break
        return conds, ok

    def _irrelevant_cond(self, b, e):
        """May a dominating condition that could not be expressed be ignored when refuting? (default: never)"""
        return False

    # ---- proving D >= 0
    def prove(self, D, conds):
        """True when D >= 0 for every valuation of the atoms allowed by the identities, ranges and conds."""
        exp = dict(self.expand)
        lo = {}
        hi = {}
        for a, inf in self.info.items():
            lo[a] = inf["lo"]
            hi[a] = inf["hi"]
        extra = []   # Polys >= 0

        def full(p):
            for _ in range(12):
                hit = False
                for a in list(p.atoms()):
                    if a in exp:
                        p = p.subst(a, exp[a])
                        hit = True
                if not hit:
                    break
            return p

        # conditions: equalities first
        pending = []
        for (l, op, r) in conds:
            d = full(l - r)
            cv = d.const_value()
            if cv is not None:
                if not {"Eq": cv == 0, "Ne": cv != 0, "Gt": cv > 0, "Ge": cv >= 0, "Lt": cv < 0, "Le": cv <= 0}[op]:
                    return True          # constant-false path condition: unreachable site
                continue
            if op == "Eq":
                done = False
                for mono, coef in d.t.items():
                    if len(mono) == 1 and coef in (1, -1):
                        a = mono[0]
                        rest = d - Poly({mono: coef})
                        if a in rest.atoms() or a in exp:
                            continue
                        exp[a] = (-rest) if coef == 1 else rest
                        done = True
                        kv = exp[a].const_value()
                        if kv is not None:
                            l0, h0 = lo.get(a), hi.get(a)
                            if (l0 is not None and l0.const_value() is not None and kv < l0.const_value()) or \
                               (h0 is not None and h0.const_value() is not None and kv > h0.const_value()) or kv < 0:
                                return True      # the path condition contradicts the atom's range: unreachable site
                        break
                if not done and d.const_value() is None:
                    extra.append(d)
                    extra.append(-d)
            else:
                pending.append((d, op))
        nes = []
        for (d, op) in pending:
            d = full(d)
            # normalise to  g >= 0
            if op == "Ge":
                g = d
            elif op == "Gt":
                g = d - 1
            elif op == "Le":
                g = -d
            elif op == "Lt":
                g = -d - 1
            else:   # Ne: trims a range end (applied repeatedly below)
                atoms = list(d.atoms())
                if len(atoms) == 1 and d.degree() == 1 and d.t.get((atoms[0],)) == 1:
                    nes.append((atoms[0], -d.t.get((), 0)))
                continue
            # single-atom bounds tighten the range, everything else is a fact
            atoms = list(g.atoms())
            if len(atoms) == 1 and g.degree() == 1 and g.t.get((atoms[0],)) in (1, -1):
                a = atoms[0]
                c0 = g.t.get((), 0)
                if g.t[(a,)] == 1:      # a + c0 >= 0  ->  a >= -c0
                    cur = lo.get(a)
                    if cur is None or (cur.const_value() is not None and cur.const_value() < -c0):
                        lo[a] = Poly.const(-c0)
                else:                    # -a + c0 >= 0 -> a <= c0
                    cur = hi.get(a)
                    if cur is None or (cur.const_value() is not None and cur.const_value() > c0):
                        hi[a] = Poly.const(c0)
            else:
                extra.append(g)
        for _ in range(6):
            changed = False
            for (a, kval) in nes:
                l0, h0 = lo.get(a), hi.get(a)
                if l0 is not None and l0.const_value() == kval:
                    lo[a] = Poly.const(kval + 1)
                    changed = True
                elif h0 is not None and h0.const_value() == kval:
                    hi[a] = Poly.const(kval - 1)
                    changed = True
            if not changed:
                break
        for a in set(lo) | set(hi):
            l0, h0 = lo.get(a), hi.get(a)
            if l0 is not None and h0 is not None and l0.const_value() is not None and h0.const_value() is not None \
                    and l0.const_value() > h0.const_value():
                return True          # empty range: unreachable site
        for f in self.facts:
            extra.append(full(f))
        for f in self.eqs:
            extra.append(full(f))
            extra.append(-full(f))

        goals = [full(D)] + [full(s) for s in self.side_for_goal]
        return all(self._nonneg(g, exp, lo, hi, extra, full) for g in goals)

    def _nonneg(self, D, exp, lo, hi, extra, full):
        if D.const_value() is not None:
            return D.const_value() >= 0
        candidates = [D]
        for f in extra:
            for m in (1, 2, 3, 4):
                candidates.append(D - f * m)
        ex = extra[:14]
        for i in range(len(ex)):
            for j in range(i + 1, len(ex)):
                candidates.append(D - ex[i] - ex[j])
        for cand in candidates[:170]:
            if self._nonneg_by_ranges(cand, lo, hi, full):
                return True
        return False

    def _nonneg_by_ranges(self, D, lo, hi, full):
        """Substitute x = lo + x' or x = hi - x' (x' >= 0) for every atom; succeed when all coefficients are >= 0."""
        if D.nonneg_coeffs():
            return True
        # order: loop variables / closure params first (their bounds mention other atoms), then remainders, then the rest
        order = sorted(D.atoms(), key=lambda a: (0 if a[0] in ("it", "cp") else 1 if a[0] == "r" else 2, repr(a)))
        return self._search(D, order, 0, lo, hi, full, [0])

    def _search(self, D, order, idx, lo, hi, full, budget):
        budget[0] += 1
        if budget[0] > 400:
            return False
        if D.nonneg_coeffs():
            return True
        if idx >= len(order):
            # atoms introduced by bounds (e.g. a loop bound mentions a quotient) -- one more sweep
            rest = [a for a in D.atoms() if a not in order]
            if rest and len(order) < 24:
                order = order + sorted(rest, key=repr)
                return self._search(D, order, idx, lo, hi, full, budget)
            return False
        a = order[idx]
        if a not in D.atoms():
            return self._search(D, order, idx + 1, lo, hi, full, budget)
        prime = ("p",) + a
        opts = []
        h = hi.get(a)
        l = lo.get(a)
        # sign heuristic: does D decrease in a?  then use the upper end first
        dec = any(v < 0 for k, v in D.t.items() if a in k)
        if h is not None:
            opts.append(full(h) - Poly.atom(prime))
        if l is not None:
            opts.append(full(l) + Poly.atom(prime))
        if not dec:
            opts.reverse()
        for sub in opts:
            if self._search(full(D.subst(a, sub)), order, idx + 1, lo, hi, full, budget):
                return True
        # leave the atom alone (it is >= 0 anyway)
        return self._search(D, order, idx + 1, lo, hi, full, budget)

    side_for_goal = ()

    # ---- refutation by a concrete model
    def refute(self, idx, width, bounds, conds, len_stride):
        """Search small concrete receivers lengths for an out-of-bounds access. Only called on closed models."""
        involved = set()
        for p in [idx] + list(bounds) + list(self.side_for_goal) + [c[0] for c in conds] + [c[2] for c in conds]:
            involved |= p.atoms()
        # close under definitions
        for _ in range(6):
            more = set()
            for a in involved:
                inf = self.info.get(a, {})
                for bp in (inf.get("lo"), inf.get("hi")):
                    if bp is not None:
                        more |= bp.atoms()
            for (nk, dk), (q, r, num, den) in self.qr.items():
                if q in involved or r in involved:
                    more |= num.atoms() | den.atoms()
            if more <= involved:
                break
            involved |= more
        base = [a for a in involved if a[0] == "self"]
        free = [a for a in involved if a[0] in ("it", "cp")]
        other = [a for a in involved if a[0] not in ("self", "it", "cp", "q", "r")]
        if other or len(base) != 1 or len(free) > 6:
            return None
        L = base[0]
        if L not in len_stride:
            return None
        stride = len_stride[L]
        qrs = [(q, r, num, den) for (nk, dk), (q, r, num, den) in self.qr.items() if q in involved or r in involved]
        for m in range(0, 70):
            zero_div = set()
            env = {L: m * stride}
            # derived atoms, in dependency order
            progress = True
            todo = list(qrs)
            while todo and progress:
                progress = False
                for item in list(todo):
                    q, r, num, den = item
                    if all(a in env for a in num.atoms() | den.atoms()):
                        v = num.eval(env)
                        dv = den.eval(env)
                        if v < 0:
                            v = 0
                        if dv <= 0:
                            env[q] = 0
                            env[r] = 0
                            zero_div.add(q)
                        else:
                            env[q] = v // dv
                            env[r] = v % dv
                        todo.remove(item)
                        progress = True
            if todo and not free:
                return None
            choices = []
            fail = False
            for a in free:
                if a[0] == "cp" and a in self.cp_sets:
                    choices.append([(a, v) for v in self.cp_sets[a]])
                    continue
                inf = self.info[a]
                try:
                    l0 = inf["lo"].eval(env)
                    h0 = inf["hi"].eval(env)
                except KeyError:
                    fail = True
                    break
                if h0 < l0:
                    choices.append([])
                else:
                    vals = sorted(set([l0, h0, (l0 + h0) // 2]))
                    choices.append([(a, v) for v in vals])
            if fail:
                return None
            for combo in product(*choices):
                e2 = dict(env)
                e2.update(dict(combo))
                # quotient atoms that depend on loop variables
                progress = True
                td = list(todo)
                while td and progress:
                    progress = False
                    for item in list(td):
                        q, r, num, den = item
                        if all(a in e2 for a in num.atoms() | den.atoms()):
                            v = max(num.eval(e2), 0)
                            dv = den.eval(e2)
                            if dv <= 0:
                                zero_div.add(q)
                                dv = 1
                            e2[q] = v // dv
                            e2[r] = v % dv
                            td.remove(item)
                            progress = True
                if td:
                    return None
                if zero_div:
                    continue        # a division by zero panics before the access: not a witness
                try:
                    holds = True
                    for (l, op, r) in conds:
                        lv, rv = l.eval(e2), r.eval(e2)
                        if not {"Eq": lv == rv, "Ne": lv != rv, "Gt": lv > rv, "Ge": lv >= rv, "Lt": lv < rv, "Le": lv <= rv}[op]:
                            holds = False
                            break
                    if not holds:
                        continue
                    iv = idx.eval(e2)
                    wrapped = any(s.eval(e2) < 0 for s in self.side_for_goal)
                    for bp in bounds:
                        bv = bp.eval(e2)
                        if wrapped or iv < 0 or iv + width > bv:
                            return {"len": m * stride, "index": iv, "width": width, "receiver_len": bv,
                                    "loop_values": {_aname(a): v for a, v in combo}, "wrapped_subtraction": wrapped}
                except KeyError:
                    return None
        return None


# --------------------------------------------------------------------------- roles of the chunk closures
def _sym_roles(F, K):
    """closure id -> {param index: (method body, operand giving the length, multiplier)} for the closures the
    Fft entry points hand to the validating helpers (data chunks: chunk_size; scratch: required_scratch)."""
    if getattr(K, "sym_roles", None) is not None:
        return K.sym_roles
    roles = {}
    validators = find_validators(F)
    helpers = find_helpers(F, validators)
    for imp in F.trait_impls("Fft"):
        for mname, (kind, getter) in ENTRY_METHODS.items():
            b = F.body_of_impl_item(imp, mname)
            if b is None:
                continue
            for bi, t in b.calls():
                c = F.callee_of(t)
                if not c or c["id"] not in helpers:
                    continue
                h = helpers[c["id"]]
                hb = h["body"]
                slices, usizes, fns, other = _param_shape(F, hb)
                ndata = len(slices) - (1 if h["scratch"] else 0)
                if not usizes:
                    continue
                chunk_op = t["args"][usizes[0] - 1]
                req_op = t["args"][usizes[1] - 1] if h["scratch"] and len(usizes) > 1 else None
                for k, fp in enumerate(fns):
                    r = b.root(t["args"][fp - 1])
                    if r[0] != "agg" or r[3]["r"].get("ak") != "closure":
                        continue
                    cid = r[3]["r"]["id"]
                    mult = 2 if (h["unroll"] and k == 0) else 1
                    role = {}
                    for d in range(ndata):
                        role[2 + d] = (b, chunk_op, mult)
                    if h["scratch"] and req_op is not None:
                        role[2 + ndata] = (b, req_op, 1)
                    roles[cid] = role
    K.sym_roles = roles
    return roles


def _instantiations(F, root):
    """All assignments of concrete types to the generic parameters of `root` that are bounded by a numeric
    SIMD trait implemented for concrete types only (AvxNum, SseNum: f32, f64)."""
    doms = {}
    bounds = list(root.r.get("bounds", []))
    for (param, trait) in [tuple(x[:2]) for x in bounds if len(x) >= 2]:
        impls = [i for i in F.impls if i.get("trait") == trait]
        if not impls or trait.rsplit("::", 1)[-1] not in ("AvxNum", "SseNum"):
            continue
        tys = [i["self_ty"] for i in impls if F.types[i["self_ty"]]["k"] == "prim"]
        if tys and len(tys) == len(impls):
            doms[param] = tys
    if not doms:
        return [{}]
    names = sorted(doms)
    return [dict(zip(names, combo)) for combo in product(*[doms[n] for n in names])]


def _len_strides(F, ctx, adt):
    """{self atom: R} when every constructor of `adt` stores  x * R  (R a literal) in the field that
    `Length::len` returns -- the receiver lengths that can exist are exactly the multiples of R."""
    out = {}
    lens = [i for i in F.trait_impls("Length") if F.impl_self_adt(i) == adt]
    if not lens:
        return out
    lb = F.body_of_impl_item(lens[0], "len")
    if lb is None:
        return out
    fake = {"id": lb.id, "res": lb.id, "p": "Length::len", "local": True}
    p = ctx.getter_atom(lb, fake)
    atoms = list(p.atoms())
    if len(atoms) != 1 or atoms[0][0] != "self" or atoms[0][2] != "field":
        return out
    path = atoms[0][1]
    strides = set()
    n_ctor = 0
    for b in F.bodies.values():
        for bi, si, n in b.iter_nodes():
            if n["k"] == "=" and n["r"]["k"] == "agg" and n["r"].get("ak") == "adt" and n["r"].get("adt") == adt:
                n_ctor += 1
                op = n["r"]["ops"]
                cur = None
                node = n["r"]
                okp = True
                for fidx in path:
                    if fidx >= len(node["ops"]):
                        okp = False
                        break
                    cur = node["ops"][fidx]
                    r = b.root(cur)
                    if r[0] == "agg":
                        node = r[3]["r"]
                    else:
                        node = None
                        if fidx != path[-1]:
                            okp = False
                        break
                if not okp or cur is None:
                    return out
                e = b.expr(cur, rich=True)
                if e[0] == "bin" and e[1] in ("Mul", "MulWithOverflow", "MulUnchecked"):
                    consts = [x for x in (e[2], e[3]) if x[0] == "const" and isinstance(x[1], int)]
                    if len(consts) == 1 and consts[0][1] > 0:
                        strides.add(consts[0][1])
                        continue
                return out
    if n_ctor and len(strides) == 1:
        out[atoms[0]] = strides.pop()
        # the normalised getter and the call form denote the same value
    return out


def r_symbound(F, cfg):
    R = Result("R-SYMBOUND", "accesses of run-time-length kernels whose safety follows from the function's own arithmetic: "
                             "bound - index - width >= 0 over symbolic lengths, quotient/remainder identities, loop ranges and path conditions")
    K = kb_for(F)
    _sym_roles(F, K)
    n_sites = n_proved = n_refuted = n_undecided = 0
    per_fn = defaultdict(lambda: {"proved": 0, "undecided": 0, "refuted": 0, "why": defaultdict(int)})
    by_root = defaultdict(list)
    for b in F.bodies.values():
        root = F.closure_parent(b) or b
        st = F.types[root.r["self_ty"]] if "self_ty" in root.r else None
        adt = st["p"] if st and st["k"] == "adt" else None
        if adt in K.fixed:
            continue
        if root.r.get("trait") in ACCESS_TRAITS:
            continue
        if F.is_dead(b):
            continue
        sites = []
        for bi, t in b.calls():
            info = K.access_info(b, t)
            if info is not None:
                fam, m, width, recv, idx, elem = info
                sites.append((bi, t, m, width, recv, idx, fam))
                continue
            c = F.callee_of(t)
            if c and not c.get("local", True) and c["p"].endswith("get_unchecked") or (c and not c.get("local", True) and c["p"].endswith("get_unchecked_mut")):
                if len(t["args"]) == 2 and _op_tys(F, b, t["args"][1]) == "usize":
                    sites.append((bi, t, c["p"].rsplit("::", 1)[-1], 1, t["args"][0], t["args"][1], "slice"))
        if sites:
            by_root[(root.id, adt)].append((b, sites))
    samples = 0
    for (rid, adt), items in sorted(by_root.items(), key=lambda kv: kv[0][0]):
        root = F.bodies[rid]
        insts = _instantiations(F, root)
        # per site: verdict over all instantiations
        for (b, sites) in items:
            for (bi, t, m, width0, recv, idx, fam) in sites:
                n_sites += 1
                verdicts = []
                witness = None
                why = None
                shown = None
                for env in insts:
                    ctx = SymCtx(F, K, env)
                    try:
                        width = width0
                        if width is None:
                            # full-vector access of a generic vector type: COMPLEX_PER_VECTOR of the instantiation
                            width = _vector_width(F, ctx, fam, t)
                            if width is None:
                                raise Undecided("vector width of a generic element type")
                        ctx.side = []
                        ip = ctx.sym(b, b.expr(idx, rich=True))
                        bounds = ctx.symlen_op(b, recv)
                        conds, understood = ctx.conditions(b, bi)
                        ctx.side_for_goal = tuple(ctx.side)
                        ok = all(ctx.prove(bp - ip - width, conds) for bp in bounds)
                        if ok:
                            verdicts.append("proved")
                            shown = {"index": ip.show(), "width": width, "receiver_len": [x.show() for x in bounds]}
                            continue
                        w = None
                        if understood and adt is not None:
                            strides = _len_strides(F, ctx, adt)
                            if strides:
                                w = ctx.refute(ip, width, bounds, conds, strides)
                        if w is not None:
                            verdicts.append("refuted")
                            w["element_type"] = {k: F.ts(v) for k, v in env.items()}
                            w["index_expr"] = ip.show()
                            w["receiver_len_expr"] = [x.show() for x in bounds]
                            witness = w
                        else:
                            verdicts.append("undecided")
                            why = "no proof for index %s (+%d) within %s" % (ip.show(), width, " / ".join(x.show() for x in bounds))
                    except Undecided as u:
                        verdicts.append("undecided")
                        why = str(u)
                    except RecursionError:
                        verdicts.append("undecided")
                        why = "recursion"
                fnname = (F.closure_parent(b) or b).name
                key = "%s:%s:%s" % (b.name, m, _expr_key(b.expr(idx)))
                if "refuted" in verdicts:
                    n_refuted += 1
                    per_fn[fnname]["refuted"] += 1
                    R.violation("symbound:oob:%s" % key, b.where(t),
                                "%s: %s leaves its receiver: for a transform of length %d (element type %s) index %s = %d moves %d element(s) "
                                "but the receiver holds %s = %d%s"
                                % (b.name, m, witness["len"], ",".join(witness["element_type"].values()) or "-", witness["index_expr"], witness["index"],
                                   witness["width"], " / ".join(witness["receiver_len_expr"]), witness["receiver_len"],
                                   " (usize subtraction wraps)" if witness["wrapped_subtraction"] else ""))
                elif all(v == "proved" for v in verdicts):
                    n_proved += 1
                    per_fn[fnname]["proved"] += 1
                    samples += 1
                    R.ok(dict(shown, kernel=b.name, access=m, instantiations=len(insts)) if samples % 60 == 1 else None, nontrivial=True)
                else:
                    n_undecided += 1
                    per_fn[fnname]["undecided"] += 1
                    per_fn[fnname]["why"][why or "?"] += 1
                    R.instances += 1
    for fn, d in sorted(per_fn.items()):
        if d["undecided"]:
            R.undecided.append({"function": fn, "proved": d["proved"], "undecided": d["undecided"],
                                "reasons": dict(sorted(d["why"].items(), key=lambda kv: -kv[1])[:4]),
                                "status": "NOT DECIDED (no alarm): outside the symbolic domain"})
    R.metric("sites", n_sites)
    R.metric("proved", n_proved)
    R.metric("refuted", n_refuted)
    R.metric("undecided", n_undecided)
    R.metric("functions_fully_proved", sum(1 for d in per_fn.values() if d["proved"] and not d["undecided"] and not d["refuted"]))
    return R


def _op_tys(F, b, operand):
    if "p" in operand:
        return b.tys(operand["p"][0]) if len(operand["p"]) == 1 else None
    c = operand.get("c")
    if c and "t" in c:
        return F.ts(c["t"])
    return None


def _vector_width(F, ctx, fam, t):
    """COMPLEX_PER_VECTOR for a full-vector access whose element type is a generic parameter."""
    c = F.callee_of(t)
    elem = None
    for a in c["a"][1:]:
        if isinstance(a, int):
            elem = a
            break
    if elem is None:
        return None
    st = ctx.resolve_type(elem)
    if st is None:
        return None
    from .kbound import VECTOR_COMPLEX
    return VECTOR_COMPLEX.get((fam, F.ts(st)))
