"""Planner tables (C04, C05, C06, C10): A-TABLE switch-table extraction, R-TABLES, R-CACHE,
R-DFTBOUND, R-ZEROGUARD."""
from .core import Result, is_panic_callee
from .entry import const_return


# --------------------------------------------------------------------------- A-TABLE
def region_of(b, target):
    """Blocks dominated by `target` (the exclusive region of a match arm)."""
    dom = b.dominators()
    return {x for x, ds in dom.items() if target in ds}


def find_switch_on_param(F, b, param):
    """First switch (in block order) whose operand is (a copy of) parameter `param`."""
    for bi, bb in enumerate(b.blocks):
        t = bb["t"]
        if t["k"] == "switch" and b.root(t["o"]) == ("param", param):
            return bi
    return None


def find_switch_on_discr(F, b, param):
    """Switch on the discriminant of (*param) or param."""
    for bi, bb in enumerate(b.blocks):
        t = bb["t"]
        if t["k"] != "switch":
            continue
        r = b.root(t["o"])
        if r[0] == "other" and r[1] and r[1].get("k") == "=" and r[1]["r"]["k"] == "discr":
            base = b.root({"p": [r[1]["r"]["p"][0]]})
            if base == ("param", param):
                return bi
    return None


def arms(b, bi):
    """-> list of (values, target_block), otherwise_block"""
    t = b.blocks[bi]["t"]
    by_t = {}
    for val, tgt in t["cases"]:
        by_t.setdefault(tgt, []).append(val)
    return [(vals, tgt) for tgt, vals in by_t.items()], t["otherwise"]


def region_calls(F, b, region):
    out = []
    for bi in sorted(region):
        t = b.blocks[bi]["t"]
        if t["k"] == "call":
            c = F.callee_of(t)
            if c:
                out.append((bi, t, c))
    return out


def region_panics(F, b, start):
    """Does the arm starting at `start` inevitably diverge (panic / unreachable)?"""
    seen = set()
    st = [start]
    while st:
        x = st.pop()
        if x in seen:
            continue
        seen.add(x)
        t = b.blocks[x]["t"]
        if t["k"] == "unreachable":
            continue
        if t["k"] == "call" and t.get("t") is None:
            c = F.callee_of(t)
            if is_panic_callee(c):
                continue
            return False
        if t["k"] == "return":
            return False
        nxt = b.succ(x)
        if not nxt:
            return False
        st.extend(nxt)
    return True


def constructed_types(F, b, region):
    """ADT types constructed in the region through a local `new*` associated function."""
    out = []
    for bi, t, c in region_calls(F, b, region):
        if not c["local"]:
            continue
        cb = F.bodies.get(c["id"])
        if cb is None or "self_ty" not in cb.r:
            continue
        if not cb.r.get("ident", "").startswith("new"):
            continue
        st = F.types[cb.r["self_ty"]]
        if st["k"] == "adt":
            out.append((st, t, c))
    return out


def enum_variants(F, adt_name):
    a = F.adts_by_name.get(adt_name)
    return [v["name"] for v in a["variants"]] if a else None


def variant_aggregates(F, b, region, adt_name):
    out = []
    for bi in sorted(region):
        for s in b.blocks[bi]["s"]:
            if s["k"] == "=" and s["r"]["k"] == "agg" and s["r"].get("ak") == "adt" and s["r"]["adt"] == adt_name:
                out.append((s["r"]["vname"], s))
    return out


def const_values_of(F, b, operand, depth=0):
    """All constants an operand may hold (a literal, or a local assigned literals on every path)."""
    r = b.root(operand)
    if r[0] == "const" and "v" in r[1]:
        return {r[1]["v"]}
    if r[0] == "multi" and depth < 3:
        vals = set()
        for (bi, si, n) in b.whole_defs(r[1]):
            if si == "t":
                return None
            rv = n["r"]
            if rv["k"] == "use":
                v = const_values_of(F, b, rv["o"], depth + 1)
                if v is None:
                    return None
                vals |= v
            else:
                return None
        return vals
    if r[0] == "other" and r[1] and r[1].get("k") == "=" and r[1]["r"]["k"] == "cast" and r[1]["r"]["ck"] == "IntToInt":
        return const_values_of(F, b, r[1]["r"]["o"], depth + 1)
    return None


def array_literal(F, b, operand):
    """Values of an array literal reached through refs/unsizing (promoted or local aggregate)."""
    r = b.root(operand)
    if r[0] == "const" and r[1].get("k") == "array":
        return list(r[1]["vals"])
    if r[0] == "agg" and r[3]["r"].get("ak") == "array":
        vals = []
        for o in r[3]["r"]["ops"]:
            v = const_values_of(F, b, o)
            if v is None or len(v) != 1:
                return None
            vals.append(next(iter(v)))
        return vals
    return None


def vec_literal(F, b, operand):
    """`vec![a, b]` lowers to Box::new_uninit + write of an array aggregate + into_vec; `vec![]`
    to Vec::new(). Returns the list of constants or None."""
    r = b.root(operand)
    if r[0] != "call":
        return None
    c = F.callee_of(r[2])
    if not c:
        return None
    if c["p"].endswith("Vec::<T>::new"):
        return []
    if "box_assume_init_into_vec" in c["p"] or "into_vec" in c["p"]:
        # find the array aggregate written in the same macro expansion: search backwards from the call
        bi = r[1]
        seen = set()
        st = [bi]
        preds = b.preds()
        while st:
            x = st.pop()
            if x in seen or len(seen) > 12:
                continue
            seen.add(x)
            for s in reversed(b.blocks[x]["s"]):
                if s["k"] == "=" and s["r"]["k"] == "agg" and s["r"].get("ak") == "array" and s.get("m", "").endswith("vec"):
                    vals = []
                    for o in s["r"]["ops"]:
                        v = const_values_of(F, b, o)
                        if v is None or len(v) != 1:
                            return None
                        vals.append(next(iter(v)))
                    return vals
            st.extend(preds.get(x, []))
    return None


# --------------------------------------------------------------------------- R-TABLES
def _one(F, adt, ident, R, required=True):
    ms = F.methods(adt, ident)
    if len(ms) != 1:
        if required:
            R.violation("anchor:%s::%s" % (adt, ident), "?", "expected exactly one %s::%s, found %d" % (adt, ident, len(ms)))
        return None
    return ms[0]


def _butterfly_design_table(F, b, recipe_adt, R):
    """design_butterfly_algorithm: {len literal -> Recipe variant}. The `match len` may sit in the
    function itself or in a private helper it forwards `len` to (`Recipe::butterfly(len)`)."""
    bi = find_switch_on_param(F, b, 2)
    if bi is None:
        for cbi, t in b.calls():
            c = F.callee_of(t)
            if c and c["local"]:
                g = F.bodies.get(c.get("res", c["id"]))
                if g is None or g.kind != "Fn" and g.kind != "AssocFn":
                    continue
                for k, a in enumerate(t["args"]):
                    if b.root(a) == ("param", 2):
                        gbi = find_switch_on_param(F, g, k + 1)
                        if gbi is not None:
                            b, bi = g, gbi
                            break
            if bi is not None:
                break
    if bi is None:
        R.violation("table:%s:noswitch" % b.name, b.where(), "no `match len` found in %s" % b.name)
        return {}
    tab = {}
    arm_list, other = arms(b, bi)
    for vals, tgt in arm_list:
        reg = region_of(b, tgt)
        vs = variant_aggregates(F, b, reg, recipe_adt)
        names = {v for v, _ in vs}
        for v in vals:
            tab[v] = names
    return tab


def _recipe_len_table(F, b, recipe_adt):
    """Recipe::len: {variant -> const}"""
    bi = find_switch_on_discr(F, b, 1)
    if bi is None:
        return None, None
    variants = enum_variants(F, recipe_adt)
    tab = {}
    arm_list, other = arms(b, bi)
    for vals, tgt in arm_list:
        reg = region_of(b, tgt)
        k = None
        for x in sorted(reg):
            for s in b.blocks[x]["s"]:
                if s["k"] == "=" and s["p"] == [0] and s["r"]["k"] == "use" and "c" in s["r"]["o"] and "v" in s["r"]["o"]["c"]:
                    k = s["r"]["o"]["c"]["v"]
        for v in vals:
            tab[variants[v]] = k
    return tab, other


def _build_table(F, b, recipe_adt, recipe_param=2):
    """build_new_fft: {variant -> [constructed ADT types]}"""
    bi = find_switch_on_discr(F, b, recipe_param)
    if bi is None:
        return None, None
    variants = enum_variants(F, recipe_adt)
    tab = {}
    arm_list, other = arms(b, bi)
    for vals, tgt in arm_list:
        reg = region_of(b, tgt)
        types = constructed_types(F, b, reg)
        for v in vals:
            tab[variants[v]] = (types, reg)
    return tab, other


def _check_recipe_planner(F, R, planner_adt, recipe_adt, label):
    design = _one(F, planner_adt, "design_butterfly_algorithm", R)
    build = _one(F, planner_adt, "build_new_fft", R)
    rlen = _one(F, recipe_adt, "len", R)
    if not (design and build and rlen):
        return
    dtab = _butterfly_design_table(F, design, recipe_adt, R)
    ltab, lother = _recipe_len_table(F, rlen, recipe_adt)
    btab, bother = _build_table(F, build, recipe_adt)
    if ltab is None or btab is None:
        R.violation("table:%s:nomatch" % label, build.where(), "cannot find the `match recipe` in %s / %s" % (build.name, rlen.name))
        return
    R.metric("%s_design_arms" % label, len(dtab))
    R.metric("%s_recipe_variants" % label, len(ltab))
    # no wildcard: the otherwise edge of an exhaustive enum match is `unreachable`
    for fn, other in ((rlen, lother), (build, bother)):
        if fn.blocks[other]["t"]["k"] != "unreachable":
            R.violation("table:%s:wildcard" % fn.name, fn.where(), "%s matches the recipe with a wildcard arm" % fn.name)
        else:
            R.ok({"fn": fn.name, "match": "exhaustive, no wildcard"}, nontrivial=True)
    variants = enum_variants(F, recipe_adt)
    for v in variants:
        if v not in ltab or v not in btab:
            R.violation("table:%s:variant:%s" % (label, v), build.where(), "recipe variant %s has no arm in %s or %s" % (v, rlen.name, build.name))
    # design -> len -> build -> Length::len
    for n, names in sorted(dtab.items()):
        names = {x for x in names}
        fixed = [x for x in names if ltab.get(x) is not None]
        open_ = [x for x in names if x in ltab and ltab.get(x) is None]
        if not names:
            R.violation("table:%s:design:%d" % (label, n), design.where(), "%s: arm %d builds no recipe" % (design.name, n))
            continue
        for x in fixed:
            if ltab[x] != n:
                R.violation("table:%s:len:%d:%s" % (label, n, x), rlen.where(),
                            "length %d is designed as Recipe::%s whose len() is %s" % (n, x, ltab[x]))
            else:
                R.ok({"len": n, "recipe": x, "recipe_len": ltab[x]}, nontrivial=True, sample_cap=6)
    # every fixed-length variant: constructed types report that length
    for v, k in sorted(ltab.items()):
        if k is None:
            continue
        types, reg = btab.get(v, ([], set()))
        if not types:
            R.violation("table:%s:build:%s" % (label, v), build.where(), "%s: arm Recipe::%s constructs nothing" % (build.name, v))
            continue
        for (st, t, c) in types:
            lc = F.length_const(st)
            if lc != k:
                R.violation("table:%s:build:%s:%s" % (label, v, st["p"]), build.where(t),
                            "Recipe::%s (len %s) is built as %s whose Length::len() is %s" % (v, k, st["s"], lc))
            else:
                R.ok({"recipe": v, "constructs": st["s"], "len": lc}, nontrivial=True, sample_cap=10)
    return dtab, ltab, btab, build


def r_tables(F, cfg):
    R = Result("R-TABLES", "planner tables agree: length -> recipe -> constructor -> reported len(); producers are subsets of consumers")
    feats = set(cfg.get("features", []))
    # ---- scalar planner
    _check_recipe_planner(F, R, "plan::FftPlannerScalar", "plan::Recipe", "scalar")
    # ---- SSE planner
    if "sse" in feats:
        res = _check_recipe_planner(F, R, "sse::sse_planner::FftPlannerSse", "sse::sse_planner::Recipe", "sse")
        _check_sse_primes(F, R, res)
    # ---- AVX planner
    if "avx" in feats:
        _check_avx(F, R)
    return R


def _check_sse_primes(F, R, res):
    lens_fn = F.fn("sse::sse_prime_butterflies::prime_butterfly_lens")
    cons = F.fn("sse::sse_prime_butterflies::construct_prime_butterfly")
    if not lens_fn or not cons:
        R.violation("anchor:sse-primes", "src/sse/sse_prime_butterflies.rs", "prime_butterfly_lens / construct_prime_butterfly not found")
        return
    lens = array_literal(F, lens_fn, {"p": [0]})
    if lens is None:
        R.violation("table:sse:primelens", lens_fn.where(), "cannot read the literal list in prime_butterfly_lens()")
        return
    R.metric("sse_prime_lens", len(lens))
    # every `match len` in construct_prime_butterfly (one per element type branch)
    nsw = 0
    # the `match len` tables may live in construct_prime_butterfly itself or in per-type helpers it forwards `len` to
    sites = [(cons, 1)]
    for bi, t in cons.calls():
        c = F.callee_of(t)
        if c and c["local"]:
            g = F.bodies.get(c.get("res", c["id"]))
            if g is not None and g.kind == "Fn":
                for k, a in enumerate(t["args"]):
                    if cons.root(a) == ("param", 1):
                        sites.append((g, k + 1))
    outer_cons = cons
    for cons, lenp in sites:
      for bi, bb in enumerate(cons.blocks):
        t = bb["t"]
        if t["k"] == "switch" and cons.root(t["o"]) == ("param", lenp):
            nsw += 1
            arm_list, other = arms(cons, bi)
            have = set()
            for vals, tgt in arm_list:
                reg = region_of(cons, tgt)
                types = constructed_types(F, cons, reg)
                for v in vals:
                    have.add(v)
                    if not types:
                        R.violation("table:sse:prime:%d:none" % v, cons.where(), "construct_prime_butterfly: arm %d constructs nothing" % v)
                    for (st, tt, c) in types:
                        lc = F.length_const(st)
                        if lc != v:
                            R.violation("table:sse:prime:%d:%s" % (v, st["p"]), cons.where(tt), "prime butterfly arm %d builds %s with len() %s" % (v, st["s"], lc))
                        else:
                            R.ok({"prime_len": v, "constructs": st["s"]}, nontrivial=True, sample_cap=4)
            missing = sorted(set(lens) - have)
            for m in missing:
                R.violation("table:sse:prime:missing:%d:%d" % (nsw, m), cons.where(),
                            "prime_butterfly_lens() advertises %d but construct_prime_butterfly (type branch %d) has no arm for it (falls into the panic arm)" % (m, nsw))
            if not region_panics(F, cons, other) and cons.blocks[other]["t"]["k"] != "unreachable":
                pass
    cons = outer_cons
    if nsw < 2:
        R.violation("table:sse:prime:branches", cons.where(), "expected a `match len` per element type in construct_prime_butterfly, found %d" % nsw)
    R.metric("sse_prime_matches", nsw)
    # hand-written butterfly list in FftPlannerSse::new is disjoint from the prime list and duplicate-free
    new = None
    for b in F.methods("sse::sse_planner::FftPlannerSse", "new"):
        new = b
    if new is None:
        R.violation("anchor:FftPlannerSse::new", "src/sse/sse_planner.rs", "FftPlannerSse::new not found")
        return
    hand = None
    cands = []
    scan = [new]
    for lvl in range(2):
        for fb0 in list(scan):
            for bi, t in fb0.calls():
                c = F.callee_of(t)
                if c and c["local"]:
                    g = F.bodies.get(c.get("res", c["id"]))
                    if g is not None and g.kind != "Closure" and g is not lens_fn and g not in scan and not g.r.get("ident", "").startswith("new") \
                            and "trait" not in g.r and len(g.blocks) < 200:
                        scan.append(g)
    for fb in scan:
        for bi, si, n in fb.iter_nodes():
            ops = []
            if n["k"] == "=":
                r_ = n["r"]
                for k in ("o", "a", "b"):
                    if k in r_:
                        ops.append(r_[k])
                ops += r_.get("ops", [])
                if r_["k"] == "agg" and r_.get("ak") == "array":
                    vals = array_literal(F, fb, {"p": n["p"]})
                    if vals:
                        cands.append(vals)
            elif n["k"] == "call":
                ops += n["args"]
            for o in ops:
                if "c" in o:
                    rr = fb.root(o)
                    if rr[0] == "const" and rr[1].get("k") == "array" and rr[1]["vals"]:
                        cands.append(list(rr[1]["vals"]))
        for idx in range(len(fb.r.get("promoted", []))):
            pv = fb.promoted_value(idx)
            if pv and pv.get("k") == "array" and pv["vals"]:
                cands.append(list(pv["vals"]))
    cands = [c_ for c_ in cands if sorted(c_) != sorted(lens)]
    if cands:
        hand = max(cands, key=len)
    if hand is None:
        R.violation("table:sse:hand", new.where(), "cannot read the hand-written butterfly list in FftPlannerSse::new")
        return
    both = sorted(set(hand) & set(lens))
    dups = sorted({x for x in hand if hand.count(x) > 1} | {x for x in lens if lens.count(x) > 1})
    if both or dups:
        R.violation("table:sse:hand-dup", new.where(), "butterfly lists overlap/duplicate (%s %s): the assert_ne! in FftPlannerSse::new fires, so new() panics instead of returning Ok/Err" % (both, dups))
    else:
        R.ok({"hand_butterflies": hand, "prime_butterflies": lens, "verdict": "disjoint, duplicate-free (discharges assert_ne! in FftPlannerSse::new)"}, nontrivial=True)
    # and the design table covers them
    if res:
        dtab = res[0]
        for h in hand:
            if h not in dtab:
                R.violation("table:sse:hand:%d" % h, new.where(), "hand-written butterfly length %d has no arm in design_butterfly_algorithm" % h)


def _check_avx(F, R):
    adt = "avx::avx_planner::AvxPlannerInternal"
    cplans = F.methods(adt, "construct_plan")
    if len(cplans) != 1:
        R.violation("anchor:construct_plan", "src/avx/avx_planner.rs", "construct_plan not found")
        return
    cp = cplans[0]
    # radix arms of construct_plan: switch on a u8 inside the for loop
    radix_arms = set()
    for bi, bb in enumerate(cp.blocks):
        t = bb["t"]
        if t["k"] == "switch" and F.types[t["dt"]]["s"] == "u8":
            arm_list, other = arms(cp, bi)
            for vals, tgt in arm_list:
                if not region_panics(F, cp, tgt):
                    types = constructed_types(F, cp, region_of(cp, tgt))
                    for v in vals:
                        radix_arms.add(v)
                        # MixedRadix{v}xnAvx: the name carries the radix; its len() is run-time
                        for (st, tt, c) in types:
                            digits = "".join(ch for ch in st["p"].split("::")[-1].split("xn")[0] if ch.isdigit())
                            if digits and int(digits) != v:
                                R.violation("table:avx:radix:%d" % v, cp.where(tt), "radix %d is built as %s" % (v, st["s"]))
                            else:
                                R.ok(None, nontrivial=True)
    R.metric("avx_radix_arms", len(radix_arms))
    if not radix_arms:
        R.violation("table:avx:radix:none", cp.where(), "no radix match found in construct_plan")
    # producers of radixes
    produced = {}
    pmr = F.methods(adt, "plan_mixed_radix")
    for b in pmr:
        for bi, t in b.calls():
            c = F.callee_of(t)
            if not c:
                continue
            if c["p"].endswith("MixedRadixPlan::push_radix") or c["p"].endswith("MixedRadixPlan::push_radix_power"):
                vals = const_values_of(F, b, t["args"][1])
                if vals is None:
                    # push_radix(radix_factors.product() as u8): guarded by `.contains` on a literal array
                    arr = None
                    for bj, tj in b.calls():
                        cj = F.callee_of(tj)
                        if cj and cj["p"].endswith("<impl [T]>::contains"):
                            arr = array_literal(F, b, tj["args"][0])
                    if arr is None:
                        R.violation("table:avx:radix:dynamic", b.where(t), "radix pushed in %s is neither a literal nor guarded by a literal list" % b.name)
                        continue
                    vals = set(arr)
                    produced.setdefault("single-radix list", set()).update(vals)
                else:
                    produced.setdefault("push_radix literals", set()).update(vals)
    if not pmr:
        R.violation("anchor:plan_mixed_radix", "src/avx/avx_planner.rs", "plan_mixed_radix not found")
    # per element type impl: is_butterfly, construct_butterfly, plan_mixed_radix_base, hardcoded table
    ibs = F.methods(adt, "is_butterfly")
    cbs = F.methods(adt, "construct_butterfly")
    bases = F.methods(adt, "plan_mixed_radix_base")
    R.metric("avx_type_impls", len(ibs))
    if len(ibs) != 2 or len(cbs) != 2 or len(bases) != 2:
        R.violation("anchor:avx-type-impls", "src/avx/avx_planner.rs", "expected f32 and f64 variants of is_butterfly/construct_butterfly/plan_mixed_radix_base")
        return

    def key(b):
        return F.ts(b.r["self_ty"])
    for ib in ibs:
        cb = [x for x in cbs if key(x) == key(ib)][0]
        base = [x for x in bases if key(x) == key(ib)][0]
        label = key(ib)
        # is_butterfly list
        lst = None
        for bi, t in ib.calls():
            c = F.callee_of(t)
            if c and c["p"].endswith("<impl [T]>::contains"):
                lst = array_literal(F, ib, t["args"][0])
        if lst is None:
            # `matches!(len, 0 | 1 | ...)` form: arms of a match on the parameter that yield true
            swb = find_switch_on_param(F, ib, 2)
            if swb is not None:
                al, oth = arms(ib, swb)
                lst = []
                for vals_, tgt_ in al:
                    reg_ = region_of(ib, tgt_)
                    yes = any(s_["k"] == "=" and s_["p"] == [0] and s_["r"]["k"] == "use" and s_["r"]["o"].get("c", {}).get("v") == 1
                              for x_ in reg_ for s_ in ib.blocks[x_]["s"])
                    if yes:
                        lst += list(vals_)
        if lst is None:
            R.violation("table:avx:is_butterfly:%s" % label, ib.where(), "cannot read the literal list of %s" % ib.name)
            continue
        # construct_butterfly arms
        bi = find_switch_on_param(F, cb, 2)
        if bi is None:
            R.violation("table:avx:construct:%s" % label, cb.where(), "no `match len` in %s" % cb.name)
            continue
        arm_list, other = arms(cb, bi)
        good = set()
        for vals, tgt in arm_list:
            if region_panics(F, cb, tgt):
                continue
            types = constructed_types(F, cb, region_of(cb, tgt))
            for v in vals:
                good.add(v)
            for (st, tt, c) in types:
                lc = F.length_const(st)
                if lc is None:
                    continue  # Dft::new(len): run-time length
                if len(vals) != 1 or lc != vals[0]:
                    R.violation("table:avx:construct:%s:%s" % (label, vals), cb.where(tt), "%s: arm %s builds %s whose len() is %s" % (cb.name, vals, st["s"], lc))
                else:
                    R.ok({"planner": label, "len": vals[0], "constructs": st["s"]}, nontrivial=True, sample_cap=8)
        if not region_panics(F, cb, other):
            good_all = True
        R.metric("avx_butterfly_arms_%s" % ("f32" if "f32" in label else "f64"), len(good))
        for n in sorted(set(lst) - good):
            R.violation("table:avx:is_butterfly:%s:%d" % (label, n), ib.where(),
                        "%s lists %d but %s has no constructor arm for it (panic 'Invalid butterfly len')" % (ib.name, n, cb.name))
        R.ok({"planner": label, "is_butterfly": sorted(lst), "subset_of_constructor_arms": True}, nontrivial=True)
        # butterfly literals and hardcoded plans in plan_mixed_radix_base
        nlit = 0
        for bj, t in base.calls():
            c = F.callee_of(t)
            if not c or not c["p"].endswith("MixedRadixPlan::butterfly"):
                continue
            vals = const_values_of(F, base, t["args"][0])
            rad = vec_literal(F, base, t["args"][1])
            if vals is None:
                # butterfly(other_factors/len/power2power3, ..) guarded by is_butterfly: covered by the list check
                rr = base.root(t["args"][0])
                guarded = _guarded_by_is_butterfly(F, base, bj, t["args"][0])
                if not guarded:
                    R.violation("table:avx:base:dynamic:%s" % label, base.where(t), "%s: butterfly length is neither a literal nor guarded by is_butterfly()" % base.name)
                else:
                    R.ok(None, nontrivial=True)
            else:
                nlit += 1
                # the planned base (times its radixes) must divide the length: where the enclosing match
                # arms pin a prime power of the length exactly, the base may not contain more of it
                pins = _pinned_powers(F, base, bj)
                rprod = 1
                for r_ in (rad or []):
                    rprod *= r_
                for v in vals:
                    for q, k in sorted(pins.items()):
                        have = _valuation(v * rprod, q)
                        if have > k:
                            R.violation("table:avx:base-divides:%s:%d:%d^%d" % (label, v, q, k), base.where(t),
                                        "%s plans base %d x radixes %s in the arm where the length has exactly %d^%d: the base does not divide the length (divide_by() panics 'Invalid base')"
                                        % (base.name, v, rad, q, k))
                        else:
                            R.ok({"planner": label, "base": v, "radixes": rad, "arm": "%d^%d exactly" % (q, k), "v%d(base)" % q: have}, nontrivial=True, sample_cap=6)
                for v in vals:
                    if v not in good:
                        R.violation("table:avx:base:%s:%d" % (label, v), base.where(t), "%s plans a butterfly of length %d for which %s has no arm" % (base.name, v, cb.name))
                    else:
                        R.ok(None, nontrivial=True)
            if rad is None:
                R.violation("table:avx:base:radixes:%s" % label, base.where(t), "%s: cannot read the radix list literal" % base.name)
            else:
                produced.setdefault("vec! literals in %s" % base.name, set()).update(rad)
        R.metric("avx_base_literals_%s" % ("f32" if "f32" in label else "f64"), nlit)
        # hardcoded table: K => butterfly(B, vec![r..]) must satisfy B * prod(r) == K
        for bi2, bb in enumerate(base.blocks):
            t = bb["t"]
            if t["k"] != "switch" or F.types[t["dt"]]["s"] != "usize":
                continue
            arm_list2, other2 = arms(base, bi2)
            if len(arm_list2) < 3:
                continue
            for vals, tgt in arm_list2:
                reg = region_of(base, tgt)
                for bj, tt, c in region_calls(F, base, reg):
                    if c["p"].endswith("MixedRadixPlan::butterfly"):
                        bv = const_values_of(F, base, tt["args"][0])
                        rad = vec_literal(F, base, tt["args"][1])
                        if bv and len(bv) == 1 and rad is not None and len(vals) == 1:
                            prod = next(iter(bv))
                            for r_ in rad:
                                prod *= r_
                            if prod != vals[0]:
                                R.violation("table:avx:hardcoded:%s:%d" % (label, vals[0]), base.where(tt),
                                            "%s: hard-coded plan for %d is butterfly %s x radixes %s = %d (plan.len disagrees with the requested length)" % (base.name, vals[0], sorted(bv), rad, prod))
                            else:
                                R.ok({"planner": label, "hardcoded": vals[0], "butterfly": sorted(bv), "radixes": rad}, nontrivial=True, sample_cap=4)
    # plan_fft: butterfly(len) under len < K  =>  0..K-1 must all be constructor arms
    for pf in F.methods(adt, "plan_fft"):
        K = None
        for bi in range(len(pf.blocks)):
            t = pf.blocks[bi]["t"]
            if t["k"] == "switch":
                r = pf.root(t["o"])
                if r[0] == "other" and r[1] and r[1].get("k") == "=" and r[1]["r"]["k"] == "bin" and r[1]["r"]["op"] == "Lt":
                    a, c_ = pf.root(r[1]["r"]["a"]), pf.root(r[1]["r"]["b"])
                    if a == ("param", 2) and c_[0] == "const" and "v" in c_[1]:
                        K = c_[1]["v"]
        if K is None:
            R.violation("table:avx:plan_fft:guard", pf.where(), "no `len < K` small-length guard in %s" % pf.name)
        else:
            for cb in cbs:
                bi = find_switch_on_param(F, cb, 2)
                arm_list, other = arms(cb, bi)
                good = {v for vals, tgt in arm_list if not region_panics(F, cb, tgt) for v in vals}
                miss = [n for n in range(K) if n not in good]
                if miss:
                    R.violation("table:avx:small:%s" % F.ts(cb.r["self_ty"]), pf.where(), "plan_fft sends every len < %d to a butterfly, but %s lacks arms for %s" % (K, cb.name, miss))
                else:
                    R.ok({"plan_fft_small_guard": K, "constructor": cb.name, "covers": "0..%d" % (K - 1)}, nontrivial=True)
    # radix producers subset of construct_plan arms
    for src, vals in sorted(produced.items()):
        bad = sorted(set(vals) - radix_arms)
        if bad:
            R.violation("table:avx:radix-producer:%s" % src, cp.where(), "%s can produce radix %s for which construct_plan has no arm (unreachable!())" % (src, bad))
        else:
            R.ok({"radix_producer": src, "values": sorted(vals), "construct_plan_arms": sorted(radix_arms)}, nontrivial=True)
    R.metric("avx_radix_producers", len(produced))


def _valuation(n, q):
    k = 0
    while n and n % q == 0:
        n //= q
        k += 1
    return k


def _pinned_powers(F, b, bi):
    """{prime: exponent} for every dominating `match factors.get_power<q>() { K => ...` arm that
    contains block bi (exact pins only; comparisons and `% m` discriminants give no upper bound)."""
    pins = {}
    dom = b.dominators().get(bi, set())
    for d in dom:
        t = b.blocks[d]["t"]
        if t["k"] != "switch":
            continue
        r = b.root(t["o"])
        if r[0] != "call":
            continue
        c = F.callee_of(r[2])
        if not c or "PartialFactors::get_power" not in c["p"]:
            continue
        qs = c["p"].rsplit("get_power", 1)[1]
        if not qs.isdigit():
            continue
        q = int(qs)
        for val, tgt in t["cases"]:
            if tgt in dom or tgt == bi:
                # the arm must be exclusive to this value
                if sum(1 for v2, t2 in t["cases"] if t2 == tgt) == 1 and tgt != t["otherwise"]:
                    pins[q] = val
    return pins


def _guarded_by_is_butterfly(F, b, bi, operand):
    """Is block bi dominated by the true edge of `self.is_butterfly(x)` for the same x?"""
    want = b.root(operand)
    dom = b.dominators().get(bi, set())
    for d in dom:
        t = b.blocks[d]["t"]
        if t["k"] != "switch":
            continue
        r = b.root(t["o"])
        if r[0] == "call":
            c = F.callee_of(r[2])
            if c and c["p"].endswith("::is_butterfly") and b.root(r[2]["args"][1]) == want:
                # bi must be on the non-zero side
                tgt_true = t["otherwise"]
                if tgt_true in dom or tgt_true == bi:
                    return True
    return False


# --------------------------------------------------------------------------- direction selectors
DIR_TY = "FftDirection"


def _dir_variants(F):
    return enum_variants(F, DIR_TY) or ["Forward", "Inverse"]


def _dir_const(F, b, operand):
    """Variant name if the operand is a constant FftDirection (through refs / promoteds)."""
    r = b.root(operand)
    if r[0] == "agg" and r[3]["r"].get("adt") == DIR_TY:
        return r[3]["r"]["vname"]
    if r[0] == "const":
        s_ = str(r[1].get("s", ""))
        for v in _dir_variants(F):
            if s_.endswith(v):
                return v
    return None


def direction_selectors(F, b):
    """Every branch on an FftDirection value in b: [(block, selector operand, {variant: target block})].
    Forms: `match d { Forward => .., Inverse => .. }` (switch on the discriminant) and
    `if d == FftDirection::V { .. } else { .. }` (PartialEq::eq / ne, or a comparison of discriminants)."""
    out = []
    variants = _dir_variants(F)
    for bi, bb in enumerate(b.blocks):
        t = bb["t"]
        if t["k"] != "switch":
            continue
        r = b.root(t["o"])
        if r[0] == "other" and r[1] and r[1].get("k") == "=" and r[1]["r"]["k"] == "discr":
            dl = r[1]["r"]["p"][0]
            if b.tys(dl).replace("&", "").strip() == DIR_TY or b.tys(dl).endswith(DIR_TY):
                targets = {}
                for val, tgt in t["cases"]:
                    if val < len(variants):
                        targets[variants[val]] = tgt
                rest = [v for v in variants if v not in targets]
                if len(rest) == 1 and b.blocks[t["otherwise"]]["t"]["k"] != "unreachable":
                    targets[rest[0]] = t["otherwise"]
                out.append((bi, {"p": [dl]}, targets))
        elif r[0] == "call":
            c = F.callee_of(r[2])
            if c and (c["p"].endswith("PartialEq::eq") or c["p"].endswith("PartialEq::ne")) and c["a"] and isinstance(c["a"][0], int) \
                    and F.ts(c["a"][0]) == DIR_TY and len(r[2]["args"]) == 2:
                a0, a1 = r[2]["args"]
                v0, v1 = _dir_const(F, b, a0), _dir_const(F, b, a1)
                sel, v = (a0, v1) if v1 is not None else (a1, v0) if v0 is not None else (None, None)
                if sel is None or len(variants) != 2:
                    continue
                other = [x for x in variants if x != v][0]
                eq = c["p"].endswith("::eq")
                false_t = [tg for val, tg in t["cases"] if val == 0]
                true_t = t["otherwise"]
                if not false_t:
                    continue
                targets = {v: true_t, other: false_t[0]} if eq else {v: false_t[0], other: true_t}
                out.append((bi, sel, targets))
    return out


def _self_fields_in(b, blocks, param=1):
    touched = set()
    for x in sorted(blocks):
        nodes = list(b.blocks[x]["s"]) + [b.blocks[x]["t"]]
        for n in nodes:
            places = []
            if n["k"] == "=":
                r_ = n["r"]
                if r_["k"] in ("ref", "rawptr"):
                    places.append(r_["p"])
                for k in ("o", "a", "b"):
                    if k in r_ and "p" in r_[k]:
                        places.append(r_[k]["p"])
            elif n["k"] == "call":
                for a in n["args"]:
                    if "p" in a:
                        places.append(a["p"])
            for p_ in places:
                if p_[0] == param:
                    for e in p_[1:]:
                        if isinstance(e, list) and e[0] == "f":
                            touched.add(e[1])
                            break
    return touched


# --------------------------------------------------------------------------- R-CACHE
def _cache_table(F, b, depth=0):
    """{variant: set(field index of self)} for a function selecting a map by a direction value,
    directly or through a private helper (`map_for(direction)`). Also returns the selector source."""
    sels = direction_selectors(F, b)
    for bi, sel, targets in sels:
        tab = {}
        for v, tgt in targets.items():
            tab[v] = _self_fields_in(b, region_of(b, tgt))
        if any(tab.values()):
            return tab, (b, sel)
    if depth < 2:
        for bi, t in b.calls():
            c = F.callee_of(t)
            if c and c["local"] and t["args"] and b.root(t["args"][0]) == ("param", 1):
                g = F.bodies.get(c.get("res", c["id"]))
                if g is None or g is b:
                    continue
                sub = _cache_table(F, g, depth + 1)
                if sub:
                    tab, (gb, gsel) = sub
                    gr = gb.root(gsel)
                    if gr[0] == "param" and gr[1] - 1 < len(t["args"]):
                        return tab, (b, t["args"][gr[1] - 1])
    return None


def r_cache(F, cfg):
    R = Result("R-CACHE", "FftCache: accessors agree on direction -> map, and the key is derived from the stored instance")
    adt = "fft_cache::FftCache"
    a = F.adts_by_name.get(adt)
    if a is None:
        R.violation("anchor:FftCache", "src/fft_cache.rs", "FftCache not found")
        return R
    fields = [f["name"] for f in a["variants"][0]["fields"]]
    dvars = _dir_variants(F)
    tables = {}
    for ident in ("get", "contains_fft", "insert"):
        b = _one(F, adt, ident, R)
        if b is None:
            continue
        res = _cache_table(F, b)
        if res is None:
            R.violation("cache:%s:noswitch" % ident, b.where(), "%s does not select a map by a direction" % b.name)
            continue
        tab, (sb, sel) = res
        tables[ident] = tab
        for dname in dvars:
            fs = tab.get(dname, set())
            if len(fs) != 1:
                R.violation("cache:%s:%s" % (ident, dname), b.where(), "%s: direction %s touches the maps %s (expected exactly one)" % (b.name, dname, sorted(fields[i] for i in fs)))
        # provenance of the selector
        if ident == "insert":
            r = sb.root(sel)
            stored = None
            if r[0] == "call":
                c = F.callee_of(r[2])
                if c and c["p"] == "Direction::fft_direction":
                    stored = _arc_root(F, sb, r[2]["args"][0])
            if stored is None:
                R.violation("cache:insert:selector", b.where(), "FftCache::insert does not select the map by fft_direction() of the inserted instance")
            else:
                R.ok({"insert_selector": "fft_direction() of the inserted Arc"}, nontrivial=True)
            nins = 0
            for bj, t in b.calls():
                c = F.callee_of(t)
                if c and "HashMap" in c["p"] and c["p"].endswith("::insert"):
                    nins += 1
                    kr = b.root(t["args"][1])
                    vr = _arc_root(F, b, t["args"][2])
                    k_ok = False
                    if kr[0] == "call":
                        ck = F.callee_of(kr[2])
                        if ck and ck["p"] == "Length::len":
                            kobj = _arc_root(F, b, kr[2]["args"][0])
                            k_ok = kobj is not None and kobj == vr and (stored is None or stored == vr)
                    if not k_ok:
                        R.violation("cache:insert:key", b.where(t), "FftCache::insert files the instance under a key that is not len() of that same instance")
                    else:
                        R.ok({"insert_key": "len() of the inserted Arc", "value": "clone of parameter"}, nontrivial=True)
            if nins < 1:
                R.violation("cache:insert:count", b.where(), "no HashMap::insert found in FftCache::insert")
        else:
            if sb.root(sel) != ("param", 3):
                R.violation("cache:%s:selector" % ident, b.where(), "%s does not select the map by its direction parameter" % b.name)
            for bj, t in b.calls():
                c = F.callee_of(t)
                if c and "HashMap" in c["p"] and (c["p"].endswith("::get") or c["p"].endswith("::contains_key")):
                    if b.root(t["args"][1]) != ("param", 2):
                        R.violation("cache:%s:key" % ident, b.where(t), "%s looks up a key that is not its len parameter" % b.name)
                    else:
                        R.ok(None, nontrivial=True)
    # the three accessors agree, and the two directions use different maps
    if len(tables) == 3:
        ref = tables["insert"]
        for ident, tab in tables.items():
            for dname in dvars:
                if tab.get(dname) != ref.get(dname):
                    R.violation("cache:%s:%s" % (ident, dname), "src/fft_cache.rs",
                                "FftCache::%s uses map %s for direction %s but insert files %s instances in %s" % (
                                    ident, sorted(fields[i] for i in tab.get(dname, [])), dname, dname, sorted(fields[i] for i in ref.get(dname, []))))
                else:
                    R.ok({"fn": "FftCache::" + ident, "direction": dname, "map": sorted(fields[i] for i in tab.get(dname, []))}, nontrivial=True)
        if len(dvars) == 2 and ref.get(dvars[0]) == ref.get(dvars[1]):
            R.violation("cache:insert:same-map", "src/fft_cache.rs", "both directions are filed in the same map")
    R.metric("cache_accessors", len(tables))
    # planner look-ups: FftCache::get / contains_fft receive a direction that is the caller's direction parameter
    nl = 0
    for b in F.bodies.values():
        for bi, t in b.calls():
            c = F.callee_of(t)
            if c and c["local"] and c["p"].startswith("fft_cache::FftCache") and (c["p"].endswith("::get") or c["p"].endswith("::contains_fft")):
                if "self_ty" in b.r and F.types[b.r["self_ty"]].get("p") == adt:
                    continue  # FftCache's own helpers
                nl += 1
                from .dirflow import source_of
                src = source_of(F, b, t["args"][2])
                # the direction parameter of the function itself, or -- inside a closure -- of the enclosing function (captured)
                eff = src[1:] if src and src[0] == "^" else src
                root_fn = F.closure_parent(b) or b
                ok_dir = eff and eff[0] == "P" and 1 <= eff[1] <= root_fn.argc and root_fn.tys(eff[1]).endswith(DIR_TY) and \
                    (b is root_fn or (src and src[0] == "^"))
                if b is not root_fn and b.kind == "Closure" and eff and eff[0] == "P" and not (src and src[0] == "^"):
                    # a direction parameter of the closure itself (e.g. `inner_fft_fn(self, len, direction)` callbacks)
                    ok_dir = 1 <= eff[1] <= b.argc and b.tys(eff[1]).endswith(DIR_TY)
                if not ok_dir:
                    R.violation("cache:lookup:%s" % b.name, b.where(t), "%s queries the cache with a direction that is not its own direction parameter" % b.name)
                else:
                    R.ok({"lookup_in": b.name, "direction": "parameter %d%s" % (eff[1], " (captured)" if src[0] == "^" else "")}, nontrivial=True, sample_cap=16)
    R.metric("cache_lookups", nl)
    # recipe caches (scalar / SSE planners): HashMap<usize, Arc<Recipe>> keyed by the requested length
    nrc = 0
    for b in F.bodies.values():
        if "self_ty" not in b.r:
            continue
        st = F.types[b.r["self_ty"]]
        if st["k"] != "adt" or not st["p"].endswith(("FftPlannerScalar", "FftPlannerSse")):
            continue
        a_def = F.adts_by_name.get(st["p"])
        fnames = [f["name"] for f in a_def["variants"][0]["fields"]] if a_def else []
        for bi, t in b.calls():
            c = F.callee_of(t)
            if not c or "HashMap" not in c["p"]:
                continue
            m = c["p"].rsplit("::", 1)[1]
            if m not in ("get", "insert", "contains_key", "entry", "remove", "get_mut"):
                continue
            rr = b.root(t["args"][0])
            if not (rr[0] == "field" and rr[1] == ("param", 1)):
                continue
            fld = rr[2][-1][1] if rr[2] and rr[2][-1][0] == "f" else None
            if fld is None or fld >= len(fnames) or "recipe" not in fnames[fld]:
                continue
            nrc += 1
            lens = [i for i in range(2, b.argc + 1) if b.tys(i) == "usize"]
            kr = b.root(t["args"][1])
            if len(lens) == 1 and kr == ("param", lens[0]):
                R.ok({"recipe_cache": m, "in": b.name, "key": "the requested length parameter"}, nontrivial=True)
            else:
                R.violation("cache:recipe:%s:%s" % (b.name, m), b.where(t), "%s: recipe_cache.%s uses a key that is not the requested length parameter" % (b.name, m))
            if m == "insert":
                vr = b.root(t["args"][2])
                src = None
                if vr[0] == "call":
                    cv = F.callee_of(vr[2])
                    if cv and cv["p"].endswith("Clone::clone"):
                        vr = b.root(vr[2]["args"][0])
                if vr[0] == "call":
                    cv = F.callee_of(vr[2])
                    if cv and cv["local"] and "design_" in cv["p"]:
                        la = [a_ for a_ in vr[2]["args"] if b.root(a_) == ("param", lens[0])] if lens else []
                        src = "designed" if la else "designed-for-other-length"
                if src == "designed":
                    R.ok({"recipe_cache_value": "recipe designed for the key length"}, nontrivial=True)
                elif src == "designed-for-other-length":
                    R.violation("cache:recipe:%s:value" % b.name, b.where(t), "%s caches a recipe designed for a different length than its key" % b.name)
    R.metric("recipe_cache_accesses", nrc)
    return R


def _arc_root(F, b, operand):
    """Root of an Arc<dyn Fft> operand, looking through Arc::clone, Deref and reborrows."""
    cur = operand
    for _ in range(12):
        r = b.root(cur)
        if r[0] == "param":
            return r
        if r[0] == "call":
            c = F.callee_of(r[2])
            if c and (c["p"].endswith("Clone::clone") or c["p"].endswith("Deref::deref") or c["p"].endswith("Arc::<T, A>::clone")) and r[2]["args"]:
                cur = r[2]["args"][0]
                continue
            return ("call", id(r[2]))
        return None
    return None


# --------------------------------------------------------------------------- R-ZEROGUARD / R-DFTBOUND
def _upper_bound_on_edges(F, b, bi, param):
    """Smallest K such that block bi is dominated by an edge establishing `param < K` (or <=),
    and largest L such that an edge establishes `param >= L`. Returns (lt, ge)."""
    dom = b.dominators().get(bi, set())
    lt, ge = None, None
    for d in dom:
        t = b.blocks[d]["t"]
        if t["k"] != "switch":
            continue
        r = b.root(t["o"])
        if not (r[0] == "other" and r[1] and r[1].get("k") == "=" and r[1]["r"]["k"] == "bin"):
            continue
        rv = r[1]["r"]
        if rv["op"] not in ("Lt", "Le", "Gt", "Ge", "Eq", "Ne"):
            continue
        a, c_ = b.root(rv["a"]), b.root(rv["b"])
        if not (a == ("param", param) and c_[0] == "const" and "v" in c_[1]):
            continue
        k = c_[1]["v"]
        if rv["op"] in ("Eq", "Ne"):
            false_t = [tgt for v, tgt in t["cases"] if v == 0]
            true_t = t["otherwise"]
            on_true = true_t in dom or true_t == bi
            on_false = any((ft in dom or ft == bi) for ft in false_t)
            if on_true == on_false:
                continue
            equal = on_true if rv["op"] == "Eq" else on_false
            if equal:
                lt = k + 1 if lt is None else min(lt, k + 1)
                ge = k if ge is None else max(ge, k)
            elif k == 0:
                ge = 1 if ge is None else max(ge, 1)
            continue
        false_t = [tgt for v, tgt in t["cases"] if v == 0]
        true_t = t["otherwise"]
        on_true = true_t in dom or true_t == bi
        on_false = any((ft in dom or ft == bi) for ft in false_t)
        if on_true == on_false:
            continue
        op = rv["op"]
        if not on_true:
            op = {"Lt": "Ge", "Le": "Gt", "Gt": "Le", "Ge": "Lt"}[op]
        if op == "Lt":
            lt = k if lt is None else min(lt, k)
        elif op == "Le":
            lt = k + 1 if lt is None else min(lt, k + 1)
        elif op == "Ge":
            ge = k if ge is None else max(ge, k)
        elif op == "Gt":
            ge = k + 1 if ge is None else max(ge, k + 1)
    return lt, ge


def r_zeroguard(F, cfg):
    R = Result("R-ZEROGUARD", "lengths 0/1 never reach the factorisers: every *Factors::compute(len) of the user's length is behind a `len >= 1` edge")
    n = 0
    planners = ("plan::FftPlannerScalar", "sse::sse_planner::FftPlannerSse", "avx::avx_planner::AvxPlannerInternal")
    for b in F.bodies.values():
        if "self_ty" not in b.r:
            continue
        st = F.types[b.r["self_ty"]]
        if st["k"] != "adt" or st["p"] not in planners:
            continue
        # only functions whose `len` parameter comes straight from the public plan_fft
        if b.r.get("ident") not in ("design_fft_for_len", "plan_fft"):
            continue
        for bi, t in b.calls():
            c = F.callee_of(t)
            if not c or not c["p"].endswith("Factors::compute"):
                continue
            r = b.root(t["args"][0])
            if r != ("param", 2):
                continue
            n += 1
            lt, ge = _upper_bound_on_edges(F, b, bi, 2)
            if ge is None or ge < 1:
                R.violation("zeroguard:%s" % b.name, b.where(t), "%s factorises the requested length without first excluding 0 (trailing_zeros(0) = 64 breaks the factoriser)" % b.name)
            else:
                R.ok({"fn": b.name, "factoriser": c["p"], "guard": "len >= %d" % ge}, nontrivial=True)
    R.metric("guarded_factorisations", n)
    return R


def r_dftbound(F, cfg):
    R = Result("R-DFTBOUND", "no planner can hand Dft::new a length above 32")
    n = 0
    enum_payload = {}  # (adt, variant) -> upper bound of the usize payload over all construction sites
    # 1. bound the payload of Recipe::Dft(len) at every construction site
    for b in F.bodies.values():
        for bi, si, node in b.iter_nodes():
            if node["k"] == "=" and node["r"]["k"] == "agg" and node["r"].get("ak") == "adt" and node["r"]["vname"] == "Dft" \
                    and node["r"]["adt"].endswith("Recipe"):
                key = node["r"]["adt"]
                op = node["r"]["ops"][0]
                rr = b.root(op)
                if rr[0] == "field" and any(isinstance(e, tuple) and e[0] == "dc" for e in rr[2]):
                    # a copy of an existing Recipe::Dft payload (derive(Clone)): preserves any bound
                    base_ty = F.strip_refs(b.locals[rr[1][1]]) if rr[1][0] == "param" else None
                    if base_ty and base_ty["k"] == "adt" and base_ty["p"] == key:
                        R.ok({"site": b.name, "Recipe::Dft payload": "copied from another Recipe::Dft"}, nontrivial=True)
                        continue
                vals = const_values_of(F, b, op)
                ub = None
                how = None
                if vals:
                    ub = max(vals)
                    how = "literal"
                else:
                    r = b.root(op)
                    if r[0] == "param":
                        lt, ge = _upper_bound_on_edges(F, b, bi, r[1])
                        if lt is not None:
                            ub = lt - 1
                            how = "dominating edge %s < %d" % (b.var_name(r[1]), lt)
                prev = enum_payload.get(key, ("init", -1))
                if ub is None:
                    enum_payload[key] = (None, None)
                    R.violation("dftbound:recipe:%s" % b.name, b.where(node), "%s builds Recipe::Dft with a length that has no static upper bound" % b.name)
                else:
                    if prev[0] != None or prev == ("init", -1):
                        enum_payload[key] = ("ok", max(prev[1], ub))
                    R.ok({"site": b.name, "Recipe::Dft payload": "<= %d" % ub, "by": how}, nontrivial=True)
    # 2. every Dft::new call outside algorithm/dft.rs
    for b in F.bodies.values():
        if b.file.endswith("algorithm/dft.rs"):
            continue
        for bi, t in b.calls():
            c = F.callee_of(t)
            if not c or c["p"] != "algorithm::dft::Dft::<T>::new":
                continue
            n += 1
            op = t["args"][0]
            vals = const_values_of(F, b, op)
            ub, how = None, None
            if vals:
                ub, how = max(vals), "literal"
            else:
                r = b.root(op)
                if r[0] == "param":
                    # inside a match arm on the parameter?
                    sw = find_switch_on_param(F, b, r[1])
                    if sw is not None:
                        arm_list, other = arms(b, sw)
                        for vs, tgt in arm_list:
                            if bi in region_of(b, tgt):
                                ub, how = max(vs), "match arm %s" % vs
                    if ub is None:
                        lt, ge = _upper_bound_on_edges(F, b, bi, r[1])
                        if lt is not None:
                            ub, how = lt - 1, "dominating edge < %d" % lt
                elif r[0] == "field":
                    # *len bound by a `Recipe::Dft(len)` pattern: payload of the enum variant
                    base = r[1]
                    pth = r[2]
                    if pth and pth[0][0] == "dc":
                        recipe_ty = None
                        if base[0] == "param":
                            recipe_ty = F.strip_refs(b.locals[base[1]])
                        if recipe_ty and recipe_ty["k"] == "adt":
                            variants = enum_variants(F, recipe_ty["p"])
                            if variants and variants[pth[0][1]] == "Dft":
                                st = enum_payload.get(recipe_ty["p"])
                                if st and st[0] == "ok":
                                    ub, how = st[1], "payload of %s::Dft over all construction sites" % recipe_ty["p"]
            if ub is None:
                R.violation("dftbound:%s" % b.name, b.where(t), "%s calls Dft::new with a length that has no static upper bound" % b.name)
            elif ub > 32:
                R.violation("dftbound:%s" % b.name, b.where(t), "%s can call Dft::new with length up to %d (> 32): a quadratic node in a plan" % (b.name, ub))
            else:
                R.ok({"site": b.name, "Dft::new length": "<= %d" % ub, "by": how}, nontrivial=True)
    R.metric("dft_new_sites", n)
    R.metric("recipe_dft_enums", len(enum_payload))
    return R


# --------------------------------------------------------------------------- R-REPLAN
def r_replan(F, cfg):
    """AVX planner `replan_with_cache`: splicing a cached stage into a radix chain preserves the
    planned length. Decided for the recognised idioms only: the cached length recorded for chain
    position i is the running product INCLUDING radix i (the multiplication dominates the record in
    the same iteration), so the radixes dropped must be 0..=i; the new base is that recorded length.
    An unrecognised way of dropping the prefix is reported as not decided (no alarm)."""
    R = Result("R-REPLAN", "replan_with_cache: the cached stage replaces exactly the chain prefix whose product it is")
    if "avx" not in set(cfg.get("features", [])):
        R.instances += 1
        R.note("avx not compiled in")
        return R
    bs = F.methods("avx::avx_planner::AvxPlannerInternal", "replan_with_cache")
    if len(bs) != 1:
        R.violation("replan:anchor", "src/avx/avx_planner.rs", "replan_with_cache not found")
        return R
    b = bs[0]
    dom = b.dominators()
    # 1. the record CacheLocation::Radix(len, idx)
    recs = [(bi, si, n) for bi, si, n in b.iter_nodes()
            if n["k"] == "=" and n["r"]["k"] == "agg" and n["r"].get("ak") == "adt" and n["r"]["adt"].endswith("CacheLocation") and len(n["r"]["ops"]) == 2]
    if len(recs) != 1:
        R.note("record of the cached chain position not recognised (%d candidates): not decided" % len(recs))
        R.undecided.append({"function": b.name, "status": "NOT DECIDED: cache-location record idiom not recognised"})
        R.instances += 1
        return R
    rbi, rsi, rec = recs[0]
    variant = rec["r"]["variant"]
    ops = rec["r"]["ops"]
    # index operand: payload .0 of enumerate().next()
    ie = b.expr(ops[1])
    idx_ok = ie[0] == "field" and ie[1][0] == "call" and ie[1][1].endswith("Iterator::next") and ie[2][-2:] == (("f", 0), ("f", 0))
    # length operand: loop-carried local multiplied by the radix in this iteration, before the record
    lr = b.root(ops[0])
    inclusive = None
    if lr[0] == "multi":
        loc = lr[1]
        for (dbi, dsi, dn) in b.whole_defs(loc):
            if dsi == "t":
                continue
            rv = dn["r"]
            if rv["k"] == "bin" and rv["op"] in ("Mul", "MulUnchecked", "MulWithOverflow"):
                a = b.root(rv["a"])
                if a == ("multi", loc) or ("p" in rv["a"] and rv["a"]["p"] == [loc]):
                    # does this multiplication dominate the record (same iteration)?
                    if dbi in dom.get(rbi, set()) and (dbi != rbi or (isinstance(dsi, int) and dsi < rsi)):
                        inclusive = True
                    else:
                        inclusive = False
    if not idx_ok or inclusive is None:
        R.undecided.append({"function": b.name, "status": "NOT DECIDED: running-product idiom not recognised"})
        R.instances += 1
        return R
    R.ok({"record": "CacheLocation variant %d = (running product %s radix[i], i)" % (variant, "including" if inclusive else "excluding")}, nontrivial=True)
    # 2. the arm consuming that variant: what is dropped from the chain, what becomes the base
    decided = False
    for bi, t in b.calls():
        c = F.callee_of(t)
        if not c:
            continue
        p = c["p"]
        if p.endswith("Vec::<T, A>::drain") or p.endswith("::drain"):
            rg = b.expr(t["args"][1])
            drop_incl = None

            def is_idx(e):
                e2 = e
                while e2[0] == "cast":
                    e2 = e2[3]
                return e2[0] == "field" and any(x == ("dc", variant) for x in e2[2]) and e2[2][-1] == ("f", 1)
            if rg[0] == "call" and rg[1].endswith("RangeInclusive::<Idx>::new") and len(rg[2]) == 2 and rg[2][0][:2] == ("const", 0) and is_idx(rg[2][1]):
                drop_incl = True
            elif rg[0] == "agg" and rg[1].startswith("std::ops::RangeToInclusive") and is_idx(rg[2][0]):
                drop_incl = True
            elif rg[0] == "agg" and rg[1].startswith("std::ops::RangeTo") and len(rg[2]) == 1:
                x = rg[2][0]
                if is_idx(x):
                    drop_incl = False
                elif x[0] == "bin" and x[1].startswith("Add") and is_idx(x[2]) and x[3][:2] == ("const", 1):
                    drop_incl = True
            elif rg[0] == "agg" and rg[1].startswith("std::ops::Range") and len(rg[2]) == 2 and rg[2][0][:2] == ("const", 0):
                x = rg[2][1]
                if is_idx(x):
                    drop_incl = False
                elif x[0] == "bin" and x[1].startswith("Add") and is_idx(x[2]) and x[3][:2] == ("const", 1):
                    drop_incl = True
            if drop_incl is None:
                continue
            decided = True
            how = "drain"
            if drop_incl != inclusive:
                R.violation("replan:prefix", b.where(t),
                            "%s: the cached length is the product of the chain %s position i, but the radixes dropped are 0..%si: the spliced plan's length is off by a factor radix[i]"
                            % (b.name, "up to and including" if inclusive else "before", "=" if drop_incl else ""))
            else:
                R.ok({"dropped": "0..%si" % ("=" if drop_incl else ""), "matches_record": True}, nontrivial=True)
    # other ways of keeping only the tail of the chain: split_off(k), skip(k), [k..]  -- the kept part starts at k,
    # so the dropped prefix is 0..k: k = i drops 0..i (exclusive), k = i+1 drops 0..=i
    def _is_idx2(e):
        e2 = e
        while e2[0] == "cast":
            e2 = e2[3]
        return e2[0] == "field" and any(x == ("dc", variant) for x in e2[2]) and e2[2][-1] == ("f", 1)

    def _from(e):
        if _is_idx2(e):
            return False
        if e[0] == "bin" and e[1].startswith("Add") and ((_is_idx2(e[2]) and e[3][:2] == ("const", 1)) or (_is_idx2(e[3]) and e[2][:2] == ("const", 1))):
            return True
        return None
    for bi, t in b.calls():
        c = F.callee_of(t)
        if not c:
            continue
        p = c["p"]
        drop_incl = None
        if p.endswith("::split_off") and len(t["args"]) == 2:
            drop_incl = _from(b.expr(t["args"][1]))
        elif p.endswith("Iterator::skip") and len(t["args"]) == 2:
            drop_incl = _from(b.expr(t["args"][1]))
        elif (p.endswith("Index::index") or p.endswith("IndexMut::index_mut")) and len(t["args"]) == 2:
            rg = b.expr(t["args"][1])
            if rg[0] == "agg" and rg[1].startswith("std::ops::RangeFrom") and len(rg[2]) == 1:
                drop_incl = _from(rg[2][0])
        if drop_incl is None:
            continue
        decided = True
        if drop_incl != inclusive:
            R.violation("replan:prefix", b.where(t),
                        "%s: the cached length is the product of the chain %s position i, but the part of the chain kept starts at i%s: the spliced plan's length is off by a factor radix[i]"
                        % (b.name, "up to and including" if inclusive else "before", "+1" if drop_incl else ""))
        else:
            R.ok({"kept_from": "i%s" % ("+1" if drop_incl else ""), "matches_record": True}, nontrivial=True)
    if not decided:
        R.undecided.append({"function": b.name, "status": "NOT DECIDED: the way the chain prefix is dropped is not a recognised idiom (drain(0..=i), drain(..=i), drain(0..i+1), split_off(i+1), skip(i+1), [i+1..])"})
        R.instances += 1
    # 3. the new base is the recorded length
    for bi, si, n in b.iter_nodes():
        if n["k"] == "=" and n["r"]["k"] == "agg" and n["r"].get("vname") == "CacheBase":
            e = b.expr(n["r"]["ops"][0])
            if e[0] == "field" and any(x == ("dc", variant) for x in e[2]):
                if e[2][-1] == ("f", 0):
                    R.ok({"new_base": "recorded cached length"}, nontrivial=True)
                else:
                    R.violation("replan:base", b.where(n), "%s: the spliced plan's base is not the recorded cached length" % b.name)
    return R
