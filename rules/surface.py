"""R-SURFACE (C16): the exported-name inventory may only grow."""
import json
import os
from .core import Result


def current_surface(F):
    items = {}
    for it in F.surface:
        items[it["path"]] = {"kind": it["kind"], "members": sorted(it.get("members", []))}
    return items


def r_surface(F, cfg):
    R = Result("R-SURFACE", "every exported path/member of 6.4.1 is still exported")
    p = os.path.join(cfg["here"], "witness", "api_surface.json")
    frozen = json.load(open(p))
    cur = current_surface(F)
    n = 0
    for path, spec in sorted(frozen["items"].items()):
        n += 1
        if path not in cur:
            R.violation("removed:%s" % path, "src/lib.rs", "public item %s (%s) is no longer exported" % (path, spec["kind"]))
            continue
        c = cur[path]
        if c["kind"] != spec["kind"]:
            R.violation("kind:%s" % path, "src/lib.rs", "public item %s changed kind %s -> %s" % (path, spec["kind"], c["kind"]))
            continue
        miss = [m for m in spec["members"] if m not in c["members"]]
        for m in miss:
            R.violation("member:%s::%s" % (path, m), "src/lib.rs", "public member %s of %s is gone" % (m, path))
        if not miss:
            R.ok({"path": path, "kind": spec["kind"], "members": len(spec["members"])}, nontrivial=bool(spec["members"]))
    R.metric("frozen_items", n)
    R.metric("current_items", len(cur))
    return R
