"""R-SURFACE (C16): the exported-name inventory may only grow."""
import json
import os
from .core import Result


def current_surface(F):
    items = {}
    for it in F.surface:
        items[it["path"]] = {"kind": it["kind"], "members": sorted(it.get("members", []))}
    return items


def r_surface(F, cfg):
    R = Result("R-SURFACE", "every exported path/member of 6.4.1 is still exported")
    p = os.path.join(cfg["here"], "witness", "api_surface.json")
    frozen = json.load(open(p))
    cur = current_surface(F)
    n = 0
    for path, spec in sorted(frozen["items"].items()):
        n += 1
        if path not in cur:
            R.violation("removed:%s" % path, "src/lib.rs", "public item %s (%s) is no longer exported" % (path, spec["kind"]))
            continue
        c = cur[path]
        if c["kind"] != spec["kind"]:
            R.violation("kind:%s" % path, "src/lib.rs", "public item %s changed kind %s -> %s" % (path, spec["kind"], c["kind"]))
            continue
        miss = [m for m in spec["members"] if m not in c["members"]]
        for m in miss:
            R.violation("member:%s::%s" % (path, m), "src/lib.rs", "public member %s of %s is gone" % (m, path))
        if not miss:
            R.ok({"path": path, "kind": spec["kind"], "members": len(spec["members"])}, nontrivial=bool(spec["members"]))
    R.metric("frozen_items", n)
    R.metric("current_items", len(cur))
    return R


def current_bounds(F):
    """Trait bounds a downstream user has to satisfy, per exported item:
       adt:<path>                      bounds on the type definition
       impl:<trait>:<self type>        bounds of that trait impl (impls of exported traits for exported types)
       inherent:<self type>:<methods>  bounds of an inherent impl block with public methods
       fn:<path>                       bounds of exported free functions / methods (incl. their impl's)
       supers:<trait>                  supertraits of an exported trait
    Sized is implicit and ignored."""
    exported_adts = {it["def"] for it in F.surface if it["kind"] in ("Struct", "Enum", "Union") and it.get("local")}
    exported_traits = {it["def"] for it in F.surface if it["kind"] == "Trait" and it.get("local")}
    out = {}

    def norm(bs):
        return sorted({"%s: %s" % (a, b_) for a, b_ in bs if not b_.endswith("marker::Sized") and not b_.endswith("MetaSized")})
    for a in F.adts.values():
        if a["name"] in exported_adts:
            out["adt:%s" % a["name"]] = norm(a.get("bounds", []))
    for imp in F.impls:
        adt = F.impl_self_adt(imp)
        if adt not in exported_adts:
            continue
        st = F.ts(imp["self_ty"])
        if "trait" in imp:
            tr = imp["trait"]
            if tr in exported_traits or tr.startswith("std::") or tr.startswith("core::"):
                if imp.get("m", "").startswith("X:"):
                    continue  # derives: covered by the witness' derive obligations
                out["impl:%s:%s" % (tr, st)] = norm(imp.get("bounds", []))
        else:
            pubs = sorted(it["name"] for it in imp["items"] if it.get("pub"))
            if pubs:
                out["inherent:%s:%s" % (st, ",".join(pubs))] = norm(imp.get("bounds", []))
    for tn in exported_traits:
        tr = F.traits.get(tn)
        if tr:
            out["supers:%s" % tn] = sorted(x for x in tr["supers"] if not x.endswith("Sized"))
    # exported inherent methods / free functions: their own where-clauses (plus their impl's)
    for b in F.bodies.values():
        if b.kind == "Closure" or not b.r.get("reachable") or not b.r.get("pub") or "trait" in b.r:
            continue
        if "self_ty" in b.r:
            st = F.types[b.r["self_ty"]]
            if st["k"] != "adt" or st["p"] not in exported_adts:
                continue
        bs = [(x[0], x[1]) for x in b.r.get("bounds", [])]
        gen = [n for n, k in b.r["generics"]]
        out["fn:%s" % b.name] = norm(bs) + ["<generics: %s>" % ",".join(gen)]
    return out


def r_apibounds(F, cfg):
    R = Result("R-APIBOUNDS", "no bound of the 6.4.1 public surface is tightened (type definitions, trait impls, inherent impl blocks, supertraits)")
    p = os.path.join(cfg["here"], "witness", "api_bounds.json")
    frozen = json.load(open(p))["items"]
    cur = current_bounds(F)
    n = 0
    for key, fb in sorted(frozen.items()):
        n += 1
        if key not in cur:
            # an inherent block may have been merged/split: look for each of its methods elsewhere
            if key.startswith("inherent:"):
                _, st, methods = key.split(":", 2) if key.count(":") >= 2 else (None, None, "")
                # find any current inherent block of the same type that offers these methods
                found = [k for k in cur if k.startswith("inherent:") and k.split(":")[1:-1] == key.split(":")[1:-1]]
                have = set()
                for k in found:
                    have |= set(k.rsplit(":", 1)[1].split(","))
                miss = [m for m in key.rsplit(":", 1)[1].split(",") if m not in have]
                if not miss:
                    extra = set()
                    for k in found:
                        extra |= set(cur[k])
                    new = sorted(extra - set(fb))
                    if new:
                        R.violation("apibounds:tightened:%s" % key, "src/lib.rs", "inherent methods of %s now require %s" % (key.split(":")[1], new))
                    else:
                        R.ok(None, nontrivial=True)
                    continue
            R.violation("apibounds:missing:%s" % key, "src/lib.rs", "public impl/definition %s of 6.4.1 no longer exists" % key)
            continue
        cb = cur[key]
        if key.startswith("supers:"):
            if sorted(cb) != sorted(fb):
                R.violation("apibounds:supers:%s" % key, "src/lib.rs", "supertraits of %s changed: %s -> %s" % (key[7:], fb, cb))
            else:
                R.ok({"item": key, "supertraits": fb}, nontrivial=True)
            continue
        new = sorted(set(cb) - set(fb))
        if new and any(x.startswith("<generics:") for x in new):
            R.violation("apibounds:generics:%s" % key, "src/lib.rs", "%s changed its generic parameter list: %s (6.4.1: %s)" % (key, [x for x in cb if x.startswith("<generics:")], [x for x in fb if x.startswith("<generics:")]))
        elif new:
            R.violation("apibounds:tightened:%s" % key, "src/lib.rs", "%s now additionally requires %s (6.4.1 required %s)" % (key, new, fb))
        else:
            R.ok({"item": key, "bounds": cb} if n % 40 == 1 else None, nontrivial=True)
    R.metric("frozen_bound_items", n)
    return R
