"""Which rules and witnesses decide which property."""
from . import shared_state, surface, entry

RULES = {
    "R-NOCELL": shared_state.r_nocell,
    "R-NOSTATIC": shared_state.r_nostatic,
    "R-NOUNSAFEIMPL": shared_state.r_nounsafeimpl,
    "R-NOFORGE": shared_state.r_noforge,
    "R-STOREIMPLS": shared_state.r_storeimpls,
    "R-IMMUTSIG": shared_state.r_immutsig,
    "R-NONDET": shared_state.r_nondet,
    "R-SURFACE": surface.r_surface,
    "R-ENTRY": entry.r_entry,
    "R-HELPER": entry.r_helper,
    "R-ERRSINK": entry.r_errsink,
}

PROPS = {
    "C11": {
        "level": "proof",
        "rules": ["R-NOCELL", "R-NOSTATIC", "R-NOUNSAFEIMPL", "R-NOFORGE"],
        "witnesses": ["W-AUTO"],
        "explanation": "Structural argument closing the schedule quantifier: all Fft methods take &self; no type of the crate "
                       "reaches an UnsafeCell (deep type walk incl. foreign ADT fields), there is no static at all, no unsafe impl of an "
                       "auto trait, and no construct that can forge *mut/&mut from shared data anywhere in the crate (MIR casts, "
                       "transmutes, cast_mut-like calls). Hence process* cannot write to self or shared state under any interleaving. "
                       "Send/Sync obligations for every public type are discharged by rustc on a witness crate (with a compile-fail twin).",
        "decides": "immutability/shareability of every transform and planner type; Send+Sync of the public surface",
        "does_not_decide": "dependence of results on scratch contents (C08) which bit-for-bit repeatability also needs",
        "assumptions": ["rustc's type and borrow checker are sound", "analysis covers x86_64 non-test code (neon/wasm modules are not compiled here)",
                        "results do not depend on initial scratch contents (C08, not decided statically)"],
    },
    "C15": {
        "level": "proof",
        "rules": ["R-IMMUTSIG", "R-STOREIMPLS", "R-NOFORGE"],
        "witnesses": [],
        "explanation": "The input of process_immutable_with_scratch is a shared slice in all Fft impls; store-capable traits are "
                       "implemented only for exclusive receivers and DoubleBuf (whose store paths touch only .output, and whose .input "
                       "is a shared slice); the crate contains zero constructs that turn shared access into write access. "
                       "So no path, normal or unwinding, can write the input.",
        "decides": "no write can reach the input slice on any path, for every transform/chunk count/call shape",
        "does_not_decide": "-",
        "assumptions": ["rustc's type and borrow checker are sound", "the list of forging constructs (DESIGN.md R-NOFORGE) is complete for core::ptr/mem/cell"],
    },
    "C16": {
        "level": "proof",
        "rules": ["R-SURFACE"],
        "witnesses": ["W-API"],
        "explanation": "A frozen downstream crate names every public item of 6.4.1 with explicit signature ascriptions, trait bounds and "
                       "auto-trait obligations and must type-check against /repo under every cargo feature set; the exported name "
                       "inventory (walk of public module children incl. re-exports) may only grow.",
        "decides": "source compatibility of the 6.4.1 public surface (names, signatures, bounds, auto traits)",
        "does_not_decide": "behavioural compatibility",
        "assumptions": ["the witness was generated from the pinned 6.4.1 tree and reviewed", "x86_64 only"],
    },
    "C09": {
        "level": "other",
        "rules": ["R-ENTRY", "R-HELPER", "R-ERRSINK"],
        "witnesses": [],
        "explanation": "Decides the negative half of C09 for every transform and call shape: (R-ENTRY) all 3x123 process_* entry points "
                       "(and the provided process(), which allocates exactly get_inplace_scratch_len()) hand their own buffers, self.len() and the "
                       "matching scratch getter to the validating helper of their kind; (R-HELPER) each validator can reach Ok only over edges that "
                       "established scratch>=required, equal data lengths and an empty (or processed) remainder, its loop is guarded by len>=size, "
                       "splits every buffer at size, advances to the tail and hands the heads plus the trimmed scratch to the chunk function; "
                       "(R-ERRSINK) every Err reaches the cold panic function of the helper, which asserts every cause. Hence an ill-shaped call "
                       "panics and a normal return implies every chunk was handed to the kernel. NOT decided: that a well-shaped call never panics "
                       "(inner scratch arithmetic and internal asserts are relational, C08).",
        "decides": "ill-shaped => panic; normal return => every chunk visited; loop guard admits every well-shaped length",
        "does_not_decide": "well-shaped => no panic inside kernels (depends on inner scratch arithmetic)",
        "assumptions": ["length-0 transforms return early by design (chunk_size == 0) and are outside the statement", "x86_64 non-test code"],
    },
}
