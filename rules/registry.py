"""Which rules and witnesses decide which property."""
from . import shared_state, surface, entry, tables, dirflow, precision, gates, kbound, primw, symbound, smallguard, scratch, suffice

RULES = {
    "R-NOCELL": shared_state.r_nocell,
    "R-NOSTATIC": shared_state.r_nostatic,
    "R-NOUNSAFEIMPL": shared_state.r_nounsafeimpl,
    "R-NOFORGE": shared_state.r_noforge,
    "R-STOREIMPLS": shared_state.r_storeimpls,
    "R-IMMUTSIG": shared_state.r_immutsig,
    "R-NONDET": shared_state.r_nondet,
    "R-SURFACE": surface.r_surface,
    "R-APIBOUNDS": surface.r_apibounds,
    "R-ENTRY": entry.r_entry,
    "R-HELPER": entry.r_helper,
    "R-ERRSINK": entry.r_errsink,
    "R-ZEROLEN": entry.r_zerolen,
    "R-TABLES": tables.r_tables,
    "R-CACHE": tables.r_cache,
    "R-ZEROGUARD": tables.r_zeroguard,
    "R-DFTBOUND": tables.r_dftbound,
    "R-REPLAN": tables.r_replan,
    "R-DIRFLOW": dirflow.r_dirflow,
    "R-TWF64": precision.r_twf64,
    "R-BLUEMOD": precision.r_bluemod,
    "R-NORECUR": precision.r_norecur,
    "R-FROMF64": precision.r_fromf64,
    "R-NOSUM": precision.r_nosum,
    "R-NOWIDEN": precision.r_nowiden,
    "R-RINGOPS": precision.r_ringops,
    "R-GATES": gates.r_featgate,
    "R-PLANNERGATE": gates.r_plannergate,
    "R-KBOUND": kbound.r_kbound,
    "R-PRIMW": primw.r_primw,
    "R-RAWFIXED": primw.r_rawfixed,
    "R-RELSITES": primw.r_relsites,
    "R-WHOCALLS": primw.r_whocalls,
    "R-SYMBOUND": symbound.r_symbound,
    "R-SMALLGUARD": smallguard.r_smallguard,
    "R-ZEROFILL": scratch.r_zerofill,
    "R-SCRATCHKIND": scratch.r_scratchkind,
    "R-SUFFICE": suffice.r_suffice,
}

PROPS = {
    "C11": {
        "level": "proof",
        "rules": ["R-NOCELL", "R-NOSTATIC", "R-NOUNSAFEIMPL", "R-NOFORGE"],
        "witnesses": ["W-AUTO"],
        "explanation": "Structural argument closing the schedule quantifier: all Fft methods take &self; no type of the crate "
                       "reaches an UnsafeCell (deep type walk incl. foreign ADT fields), there is no static at all, no unsafe impl of an "
                       "auto trait, and no construct that can forge *mut/&mut from shared data anywhere in the crate (MIR casts, "
                       "transmutes, cast_mut-like calls). Hence process* cannot write to self or shared state under any interleaving. "
                       "Send/Sync obligations for every public type are discharged by rustc on a witness crate (with a compile-fail twin).",
        "decides": "immutability/shareability of every transform and planner type; Send+Sync of the public surface",
        "does_not_decide": "dependence of results on scratch contents (C08) which bit-for-bit repeatability also needs",
        "assumptions": ["rustc's type and borrow checker are sound", "analysis covers x86_64 non-test code (neon/wasm modules are not compiled here)",
                        "results do not depend on initial scratch contents (C08, not decided statically)"],
    },
    "C15": {
        "level": "proof",
        "rules": ["R-IMMUTSIG", "R-STOREIMPLS", "R-NOFORGE"],
        "witnesses": [],
        "explanation": "The input of process_immutable_with_scratch is a shared slice in all Fft impls; store-capable traits are "
                       "implemented only for exclusive receivers and DoubleBuf (whose store paths touch only .output, and whose .input "
                       "is a shared slice); the crate contains zero constructs that turn shared access into write access. "
                       "So no path, normal or unwinding, can write the input.",
        "decides": "no write can reach the input slice on any path, for every transform/chunk count/call shape",
        "does_not_decide": "-",
        "assumptions": ["rustc's type and borrow checker are sound", "the list of forging constructs (DESIGN.md R-NOFORGE) is complete for core::ptr/mem/cell"],
    },
    "C16": {
        "level": "proof",
        "rules": ["R-SURFACE", "R-APIBOUNDS"],
        "all_feature_sets_in_quick": True,
        "witnesses": ["W-API"],
        "explanation": "A frozen downstream crate names every public item of 6.4.1 with explicit signature ascriptions, trait bounds and "
                       "auto-trait obligations and must type-check against /repo under every cargo feature set; the exported name "
                       "inventory (walk of public module children incl. re-exports) may only grow; the bounds of every exported type definition, "
                       "trait impl, inherent impl block and supertrait list may not be tightened (R-APIBOUNDS: this is what a concrete-type witness "
                       "cannot see, e.g. `impl<T> Length for Radix4<T>` becoming `impl<T: FftNum>`).",
        "decides": "source compatibility of the 6.4.1 public surface (names, signatures, bounds, auto traits)",
        "does_not_decide": "behavioural compatibility",
        "assumptions": ["the witness was generated from the pinned 6.4.1 tree and reviewed", "x86_64 only"],
    },
    "C09": {
        "level": "other",
        "rules": ["R-ENTRY", "R-HELPER", "R-ERRSINK"],
        "witnesses": [],
        "explanation": "Decides the negative half of C09 for every transform and call shape: (R-ENTRY) all 3x123 process_* entry points "
                       "(and the provided process(), which allocates exactly get_inplace_scratch_len()) hand their own buffers, self.len() and the "
                       "matching scratch getter to the validating helper of their kind; (R-HELPER) each validator can reach Ok only over edges that "
                       "established scratch>=required, equal data lengths and an empty (or processed) remainder, its loop is guarded by len>=size, "
                       "splits every buffer at size, advances to the tail and hands the heads plus the trimmed scratch to the chunk function; "
                       "(R-ERRSINK) every Err reaches the cold panic function of the helper, which asserts every cause. Hence an ill-shaped call "
                       "panics and a normal return implies every chunk was handed to the kernel. NOT decided: that a well-shaped call never panics "
                       "(inner scratch arithmetic and internal asserts are relational, C08).",
        "decides": "ill-shaped => panic; normal return => every chunk visited; loop guard admits every well-shaped length",
        "does_not_decide": "well-shaped => no panic inside kernels (depends on inner scratch arithmetic)",
        "assumptions": ["length-0 transforms return early by design (chunk_size == 0) and are outside the statement", "x86_64 non-test code"],
    },
    "C04": {
        "level": "other",
        "rules": ["R-TABLES", "R-DIRFLOW", "R-ZEROGUARD", "R-ZEROLEN", "R-REPLAN", "R-SMALLGUARD"],
        "witnesses": [],
        "explanation": "Handler exhaustiveness and agreement of the planner tables, for every n: (R-TABLES) length literal -> Recipe variant -> "
                       "Recipe::len constant -> constructor type -> that type's Length::len constant agree for the scalar and SSE planners (both "
                       "element-type constructors), prime_butterfly_lens() equals the arms of construct_prime_butterfly in both type branches, the AVX "
                       "is_butterfly lists and every butterfly literal of plan_mixed_radix_base (and 0..9 from plan_fft) are constructor arms whose type "
                       "reports that length, every hard-coded plan satisfies base*radixes = key, every radix literal a planner can push has a "
                       "non-unreachable arm in construct_plan, recipe matches have no wildcard; (R-DIRFLOW) the requested direction is the only "
                       "direction any constructor receives and fft_direction() reads it back; (R-ZEROGUARD) length 0 never reaches a factoriser; (R-ZEROLEN) "
                       "every helper returns before the chunk loop when chunk_size == 0, so a length-0 transform accepts an empty buffer and terminates; "
                       "(R-REPLAN) the AVX planner's cache splice keeps exactly the part of the radix chain after the cached stage; (R-SMALLGUARD) the scalar and SSE "
                       "planners select MixedRadixSmall/GoodThomasAlgorithmSmall only below a child-length guard under which no prime is routed to Bluestein's "
                       "algorithm by the planner's own design_prime test (butterfly table, guard constant and MAX_RADER_PRIME_FACTOR read from the code), so the "
                       "constructor asserts of the *Small algorithms cannot fire.",
        "decides": "no design-stage product can reach an 'Invalid butterfly len'/unreachable!() arm; reported len() and fft_direction() of planned butterflies/recipes equal the request",
        "does_not_decide": "panics that depend on residues of n (asserts in design_radixn, plan_bluesteins, divide_by().unwrap(), *Small preconditions)",
        "assumptions": ["x86_64 non-test code; neon/wasm planners are the always-Err stubs here"],
    },
    "C05": {
        "level": "other",
        "rules": ["R-DFTBOUND"],
        "witnesses": [],
        "explanation": "Clause 2 only: every call of Dft::new outside algorithm/dft.rs (who-may-call inventory) receives a length whose static upper "
                       "bound is <= 32: literal, match-arm value, dominating comparison edge, or the payload bound of Recipe::Dft joined over all "
                       "of its construction sites (copies by derive(Clone) preserve it). The operation-count and scratch-size clauses quantify "
                       "over run-time quantities and are NOT decided.",
        "decides": "no planner can place a naive quadratic sub-transform longer than 32 (actually: longer than 1) in a plan",
        "does_not_decide": "operation count <= 64 n log2 n; advertised scratch <= 12n+64",
        "assumptions": ["x86_64 non-test code"],
    },
    "C06": {
        "level": "other",
        "rules": ["R-CACHE", "R-DIRFLOW", "R-FROMF64", "R-NOWIDEN"],
        "witnesses": [],
        "explanation": "Forward/inverse separation: (R-CACHE) get/contains_fft/insert agree on direction -> map, insert keys by len() and selects by "
                       "fft_direction() of the very instance inserted, all planner look-ups pass their own direction parameter; (R-DIRFLOW) in every "
                       "function the direction stored in the struct, given to every twiddle generator and to every sub-constructor comes from one "
                       "source (own parameter, or fft_direction() of one inner transform with the other asserted equal); the only inversions are the "
                       "Bluestein kernel chirp and direction_of. A planner asked for d therefore cannot return anything assembled with another "
                       "direction, for any request history. (R-FROMF64/R-NOWIDEN) the 1/m scale folded into the Rader/Bluestein kernels and every other constant "
                       "enters through from_f64/from_usize at full precision: no from_f32, no run-time f64 expression, no f32 value widened to f64 -- a scale that is "
                       "exact to 24 bits only makes forward-then-inverse return n*x with 1e-8 relative error for f64.",
        "decides": "a planned transform is built with the requested direction throughout; caches cannot mix directions",
        "does_not_decide": "the value identity ifft(fft(x)) = n x, rotation sign tables (bit masks), absence of scaling",
        "assumptions": ["x86_64 non-test code"],
    },
    "C10": {
        "level": "other",
        "rules": ["R-CACHE", "R-NONDET", "R-NOSTATIC", "R-DIRFLOW", "R-REPLAN"],
        "witnesses": [],
        "explanation": "Cache integrity and determinism of planning: an entry is filed under len()/fft_direction() of the stored object itself, so no "
                       "request history can make a lookup for (n,d) return an object that claims otherwise; look-ups use the requested direction; the crate "
                       "(hence every planner) contains no hash-order iteration, clock, RNG, environment, thread-id, address-to-integer or static "
                       "state, so equal request sequences build equal plans. Instances own their parts through Arc (W-API ascribes 'static).",
        "decides": "cache entries always satisfy their key; planning is a function of the request sequence and CPU feature bits",
        "does_not_decide": "that each spliced plan computes the DFT (C01); arithmetic of plan rewriting beyond the one splice idiom checked by R-REPLAN (cached stage replaces exactly the chain prefix whose product it is)",
        "assumptions": ["x86_64 non-test code"],
    },
    "C02": {
        "level": "other",
        "rules": ["R-TWF64", "R-BLUEMOD", "R-NORECUR", "R-NOSUM", "R-NOWIDEN", "R-FROMF64"],
        "witnesses": [],
        "explanation": "Decides the three precision MECHANISMS the property is anchored in, each a necessary condition of the bound, NOT the bound "
                       "16*eps*log2(2n) itself: (R-TWF64) in compute_twiddle the sin/cos arguments are f64 expressions built only from f64 "
                       "constants, f64 arithmetic and integer->f64 conversions of the index and the length (no f32 local, no float-to-float cast, no "
                       "call), results go straight to T::from_f64 as (re,im)=(cos,sin), Inverse = conj; (R-BLUEMOD) every chirp index is (i*i) mod f(2n) "
                       "computed in >=64-bit integer arithmetic, the 64-bit branch dominated by len < 2^32, for the length 2*destination.len(); "
                       "(R-NORECUR) no function that obtains twiddles from a twiddle source multiplies two twiddle-derived complex values (no table by "
                       "recurrence); (R-NOSUM) no iterator sum/fold/reduce of element-type values outside the naive Dft (a linear summation chain has "
                       "eps*n error growth; hand-written accumulation loops are not covered); (R-NOWIDEN) no f32 value is widened to f64 anywhere in the crate "
                       "(an f32 constant pasted into an f64 kernel carries 24 bits); (R-FROMF64) constants enter only via from_f64/from_usize. A tree passing these rules can still violate the "
                       "numeric bound (e.g. a numerically poor butterfly); that part is value-level and not decided.",
        "decides": "mechanisms: f64-only twiddle evaluation from an integer index, integer mod 2n before the Bluestein chirp, no twiddle recurrence",
        "does_not_decide": "the bound 16*eps*log2(2n) itself; pre-scaling by 1/m beyond its appearance as a real-scalar product",
        "assumptions": ["x86_64 non-test code"],
    },
    "C13": {
        "level": "other",
        "rules": ["R-GATES", "R-PLANNERGATE", "R-TABLES", "R-DIRFLOW", "R-SMALLGUARD"],
        "all_feature_sets_in_quick": True,
        "witnesses": [],
        "explanation": "All four cargo feature sets (default, sse, avx, none) are type-checked and analysed -- three of them are programs no test "
                       "ever compiles. Capability levels are not emulated; instead the invariant that makes every level safe is decided: "
                       "(R-GATES) every call of a #[target_feature] function or intrinsic, every slice re-typing and every unwrap() of a "
                       "detection-gated constructor is discharged by the enclosing function's own target features, by detection/TypeId edges that "
                       "dominate it, or by the existence of a gated type whose every construction site established the fact; nothing escapes to an "
                       "externally reachable function (so e.g. RadersAvx2 -- needing avx2 -- can only exist after avx2 was detected, and the "
                       "avx-without-avx2 branch that this CPU never takes is checked as thoroughly as the one it takes). (R-PLANNERGATE) each SIMD planner's "
                       "new() returns Ok only with its features detected and T identified as f32/f64, Err only when one of exactly those tests fails, has no "
                       "undischarged panic edge; compiled-out stubs always return Err and are unconstructible; FftPlanner::new probes "
                       "AVX->SSE->NEON->WASM->scalar without panic edges or unwraps. NOT decided: numerical correctness of the plans chosen at each level.",
        "decides": "instance exists => its instruction sets were detected; planners decline exactly when unavailable and never panic; every feature set type-checks and passes the rules",
        "does_not_decide": "C01/C02 of the plans chosen under each capability level",
        "assumptions": ["x86_64 only (neon/wasm_simd modules cannot be compiled here; their planners are the always-Err stubs)", "std's is_x86_feature_detected! is correct"],
    },
    "C14": {
        "level": "other",
        "rules": ["R-PLANNERGATE", "R-GATES", "R-FROMF64", "R-RINGOPS"],
        "witnesses": ["W-NUM"],
        "explanation": "(W-NUM) a minimal element type implementing exactly Copy+FromPrimitive+Signed+Sync+Send+Debug+'static (no Float, size 24) "
                       "type-checks against FftPlanner, every SIMD planner constructor, every public algorithm constructor and all Fft methods, so the "
                       "portable code can use nothing beyond the bound; (R-PLANNERGATE) SIMD planners return Ok only when T was identified as f32/f64, "
                       "so they decline every other type; (R-GATES) no path re-types a Complex<T> slice without an established type identity; "
                       "(R-FROMF64/R-RINGOPS) on the element type the generic code invokes only Add/Sub/Mul/Neg (+Div for the 1/m scale), Zero/One and "
                       "from_f64/from_usize. NOT decided: exactness of the transform in exact arithmetic (value-level).",
        "decides": "SIMD planners decline T not in {f32,f64}; portable code needs only the public bound, ring ops and from_f64/from_usize constants",
        "does_not_decide": "that the planned transform equals the DFT exactly in exact arithmetic",
        "assumptions": ["x86_64 non-test code"],
    },
    "C08": {
        "level": "other",
        "rules": ["R-ENTRY", "R-HELPER", "R-ZEROFILL", "R-SCRATCHKIND", "R-SUFFICE"],
        "witnesses": [],
        "explanation": "Decides three structural clauses of 'scratch is pure workspace', each a necessary condition, for every transform, length and call shape: "
                       "(1) a longer scratch is indistinguishable from one of exactly the advertised length -- every entry point passes the matching scratch getter "
                       "to its validating helper (R-ENTRY) and every helper re-slices the scratch to exactly that length before any chunk function sees it "
                       "(R-HELPER trim), so no kernel can observe the surplus (several kernels compare or assert scratch lengths); "
                       "(2) R-ZEROFILL: both Bluestein implementations overwrite the padding of their inner buffer -- which lives in the caller's scratch -- with zeros on "
                       "every path to the inner FFT (zero store through an iterator/index over the same buffer, fill, SIMD zero store, or a callee that does so on all paths); "
                       "(3) R-SCRATCHKIND: whenever a kernel hands part of the caller's scratch to an inner transform as that transform's scratch, the inner transform's "
                       "requirement of the matching kind (in-place / out-of-place / immutable) is consulted when the advertised length is computed -- in the formula that "
                       "initialises the value the getter returns, or in a panicking guard of the constructor that bounds it (the *Small algorithms) -- so no formula asks the "
                       "wrong transform or the wrong kind; (4) R-SUFFICE: for the same hand-offs the length of the slice handed over is compared symbolically with the inner "
                       "requirement, the advertised length being expanded to the guarded formula its constructor stored (if/max as case splits, constructor asserts as "
                       "hypotheses, inner getters renamed from constructor to kernel): proved for 58 of 79 hand-offs on the pinned tree (all AVX mixed-radix types, "
                       "Radix3/4/N immutable paths, MixedRadix/GoodThomas in-place and immutable paths, Bluestein), refuted -- with a concrete assignment of "
                       "the inner lengths and requirements as witness -- when a formula under-advertises, undecided otherwise. NOT decided: that the advertised size suffices (arithmetic over run-time lengths with max/if), and that every "
                       "scratch or output element is written before it is read (bit-for-bit independence from initial contents beyond the Bluestein padding).",
        "decides": "longer scratch == exact scratch (trim); Bluestein padding zero-filled on every call; advertised-length formulas consult the matching requirement of every inner transform that receives scratch, and cover it for the 58 hand-offs the symbolic comparison proves",
        "does_not_decide": "sufficiency of the advertised sizes where the comparison is undecided (21 hand-offs: loop-carried lengths, Rader's split buffers, AVX Bluestein vector counts); write-before-read of whole buffers, i.e. independence from initial scratch/output contents in general",
        "assumptions": ["x86_64 non-test code", "inner transforms are fields of type Arc<dyn Fft<T>> (one level of struct nesting)"],
    },
    "C03": {
        "level": "other",
        "rules": ["R-ENTRY", "R-HELPER", "R-WHOCALLS", "R-KBOUND", "R-RAWFIXED", "R-PRIMW", "R-GATES", "R-SYMBOUND", "R-RELSITES"],
        "witnesses": [],
        "explanation": "Layered argument. (1) R-ENTRY/R-HELPER/R-WHOCALLS: the exported surface offers no data-buffer function other than the "
                       "369 process_* methods and the provided process(); each passes a validator that hands out chunks of exactly len() elements and "
                       "scratch trimmed to exactly the advertised length (validators and helpers are safe code). (2) R-KBOUND: in every fixed-size "
                       "kernel (all methods/closures of the 99 types whose len() is a constant: scalar, SSE, AVX butterflies) every load/store "
                       "satisfies hi(index)+width <= bound(receiver) by interval analysis (literals, for-range payloads, arithmetic, closure parameters "
                       "joined over their call sites, captured variables, helper parameters joined over callers), with receiver bounds propagated from "
                       "the validators (N, 2N for the pair path, the constant scratch requirement), through DoubleBuf, array references and call "
                       "sites; R-RAWFIXED covers the raw escape-hatch intrinsics in those kernels; R-PRIMW shows each SIMD primitive moves exactly "
                       "the bytes its name promises and each array wrapper uses its own receiver and index. (3) R-GATES: no slice is re-typed without an "
                       "established type identity and no instruction outside the detected feature set can execute. (4) R-SYMBOUND: in the run-time-length "
                       "kernels whose safety follows from the function's own arithmetic (all AVX mixed-radix column butterflies and transposes: strided rows, "
                       "full-vector main loop, partial-vector remainder) index + width <= receiver length is proved symbolically for every length -- "
                       "polynomials over len(), quotient/remainder identities x = q*d + r, loop ranges and dominating path conditions, per element-type "
                       "instantiation -- and an access that a concrete length drives out of its receiver is reported with that length as witness; "
                       "(5) R-RELSITES: every remaining unchecked access is inventoried as NOT DECIDED (its bound is a relation between run-time lengths "
                       "established in another function: constructor invariants, loop-carried strides); only the presence of the explicit panicking "
                       "guards of the public-path transposes is checked for them.",
        "decides": "in-bounds-ness of every access in all fixed-size kernels and in the AVX mixed-radix column/transposition kernels for all lengths/inputs/call shapes; validated entry; type and CPU-feature gates",
        "does_not_decide": "accesses whose bound depends on an invariant established elsewhere (array_utils transposes, radix-N / radix-4 cross butterflies with loop-carried strides, AVX Rader/Bluestein rows whose twiddle-table length is fixed by the constructor): inventoried in evidence as undecided, never silently passed",
        "assumptions": ["x86_64 non-test code", "byte footprints of the core::arch intrinsics as tabulated in rules/primw.py"],
    },
}
