"""Positive controls: the zero-count rules are run on /verif/fixtures/control, in which every
forbidden construct occurs once. A rule that misses a control (or reports an allowed idiom) is
broken and the check fails closed."""
import json
import os


def run_controls(here, rule_names, run_driver, registry, Facts, work):
    exp = json.load(open(os.path.join(here, "fixtures", "control", "expect.json")))
    wanted = [r for r in rule_names if r in exp]
    if not wanted:
        return [], {}
    out = os.path.join(work, "facts-control.jsonl")
    ok, log = run_driver(os.path.join(here, "fixtures", "control"), out, [], crate="rfv_control")
    if not ok:
        return [{"rule": "CONTROL", "key": "CONTROL|build", "where": "fixtures/control", "msg": "control fixture failed to build: " + log[-800:]}], {}
    F = Facts(out)
    failures = []
    summary = {}
    for rn in wanted:
        res = registry.RULES[rn](F, {"label": "control", "here": here, "tier": "quick", "features": []})
        keys = [v["key"] + " " + v["msg"] for v in res.violations]
        hit = 0
        for m in exp[rn]["must_report"]:
            if any(m in k for k in keys):
                hit += 1
            else:
                failures.append({"rule": rn, "key": "%s|control-missed:%s" % (rn, m), "where": "fixtures/control/src/lib.rs",
                                 "msg": "positive control %s was not reported by %s: the rule is broken" % (m, rn)})
        for m in exp[rn]["must_not_report"]:
            if any(m in k for k in keys):
                failures.append({"rule": rn, "key": "%s|control-false-alarm:%s" % (rn, m), "where": "fixtures/control/src/lib.rs",
                                 "msg": "allowed idiom %s was reported by %s: the rule is too strict" % (m, rn)})
        summary[rn] = {"controls_reported": hit, "controls_expected": len(exp[rn]["must_report"]),
                       "negative_controls_silent": len(exp[rn]["must_not_report"])}
    return failures, summary
