"""C08 (clause level): scratch is pure workspace.

R-ZEROFILL     Bluestein's algorithm embeds the length-n signal in a longer inner buffer that lives in the caller's
               scratch; the padding must be overwritten with zeros on every call, before the inner FFT, or the result
               depends on what the scratch held. Judgement: in every function of a Bluestein transform that hands a
               buffer to the inner FFT, a zero store into that same buffer (a loop assigning `zero()` through an iterator
               / index over it or a tail of it, `fill(zero())`, a SIMD `store_*(zero())`, or a callee that does so on
               every path) lies on every path to the first inner-FFT call.
R-SCRATCHKIND  every inner transform that receives (part of) the caller's scratch as *its* scratch has its own
               requirement of the matching kind in the formula of the advertised length: if `perform_fft_inplace` calls
               `inner.process_outofplace_with_scratch(.., scratch_part)`, the expression that initialises the value returned by
               `get_inplace_scratch_len()` must mention `inner.get_outofplace_scratch_len()`. A formula that asks the
               wrong inner transform, or the wrong kind, advertises a size unrelated to what will be used.
Both are necessary conditions; neither decides that the advertised size suffices (that is arithmetic over run-time
lengths) nor that every scratch element is written before it is read.
"""
from collections import defaultdict

from .core import Result
from .kbound import kb_for, ACCESS_TRAITS

TRANSMUTES = ("rustfft::array_utils::workaround_transmute", "rustfft::array_utils::workaround_transmute_mut")
PASS = ("Deref::deref", "DerefMut::deref_mut", "::as_slice", "::as_mut_slice", "Borrow::borrow", "BorrowMut::borrow_mut",
        "AsRef::as_ref", "AsMut::as_mut", "IntoIterator::into_iter", "Iterator::skip", "Iterator::take", "Iterator::rev",
        "Iterator::enumerate", "Iterator::step_by", "::iter_mut", "::iter", "::chunks_exact_mut", "::chunks_mut", "Iterator::by_ref")
PROCESS = {"process_with_scratch": ("inplace", 1, 2), "process_outofplace_with_scratch": ("outofplace", 1, 3),
           "process_immutable_with_scratch": ("immut", 1, 3)}
GETTER_KIND = {"get_inplace_scratch_len": "inplace", "get_outofplace_scratch_len": "outofplace", "get_immutable_scratch_len": "immut"}


def origin(F, b, operand, depth=0, _seen=None):
    """Where does a slice-like operand come from?  ('param', i) | ('split', block, part) | ('call', block) |
    ('self', path) | ('multi', local) | ('?',).  Sub-slices, reborrows, transmutes, iterators keep the origin."""
    if depth > 30:
        return ("?",)
    r = b.root(operand, through_calls=TRANSMUTES)
    k = r[0]
    if k == "param":
        return ("param", r[1])
    if k == "call":
        t = r[2]
        c = F.callee_of(t)
        name = c["p"] if c else ""
        if any(name.endswith(s) for s in PASS) and t["args"]:
            return origin(F, b, t["args"][0], depth + 1, _seen)
        if (name.endswith("Index::index") or name.endswith("IndexMut::index_mut") or "get_unchecked" in name or name.endswith("::get_mut") or name.endswith("::get")) and t["args"]:
            return origin(F, b, t["args"][0], depth + 1, _seen)
        if name.endswith("Iterator::zip") and t["args"]:
            return ("zip", tuple(origin(F, b, a, depth + 1, _seen) for a in t["args"]))
        return ("call", r[1])
    if k == "field":
        base, path = r[1], r[2]
        if base[0] == "call":
            t = base[2]
            c = F.callee_of(t)
            name = c["p"] if c else ""
            if "split_at" in name and path and path[0][0] == "f":
                o = origin(F, b, t["args"][0], depth + 1, _seen)
                return ("split", base[1], path[0][1], o)
            if name.endswith("Iterator::next") and t["args"]:
                # payload of an iterator: origin of what is iterated (zip: tuple component)
                o = origin(F, b, t["args"][0], depth + 1, _seen)
                comps = [x[1] for x in path if x[0] == "f"]
                # strip the Option payload projection (dc 1, f 0)
                while o[0] == "zip" and comps:
                    # zip payload is a tuple: first field index after the Option payload selects the component
                    idxs = comps[1:] if len(comps) > 1 else []
                    if not idxs:
                        break
                    sel = idxs[0]
                    o = o[1][sel] if sel < len(o[1]) else ("?",)
                    comps = [comps[0]] + idxs[1:]
                return o
            return ("callfield", base[1])
        if base[0] == "param":
            if base[1] == 1 and "self_ty" in b.r and b.kind != "Closure":
                return ("self", tuple(x[1] for x in path if x[0] == "f"))
            return ("param", base[1])
        return ("?",)
    if k == "multi":
        _seen = _seen or set()
        if r[1] in _seen or depth > 12:
            return ("multi", r[1])
        _seen = _seen | {r[1]}
        outs = set()
        for (bi, si, n) in b.whole_defs(r[1]):
            if si == "t":
                outs.add(("call", bi))
            elif n["r"]["k"] == "use":
                outs.add(origin(F, b, n["r"]["o"], depth + 1, _seen))
            elif n["r"]["k"] in ("ref", "rawptr"):
                outs.add(origin(F, b, {"p": n["r"]["p"]}, depth + 1, _seen))
            else:
                outs.add(("?",))
        outs.discard(("multi", r[1]))
        if len(outs) == 1:
            return next(iter(outs))
        return ("multi", r[1])
    return ("?",)


def base_origin(o):
    """The buffer a sub-slice origin belongs to: a split part is its own buffer; everything else is itself."""
    return o


def _is_zero(F, b, operand, depth=0):
    r = b.root(operand)
    if r[0] == "call":
        c = F.callee_of(r[2])
        if c and not r[2]["args"] and (c["p"].endswith("::zero") or c["p"].endswith("Default::default")):
            return True
        if c and c["p"].endswith("Complex::<T>::new") and len(r[2]["args"]) == 2:
            return all(_is_zero(F, b, a, depth + 1) for a in r[2]["args"]) if depth < 3 else False
    if r[0] == "agg" and r[3]["r"].get("adt", "").endswith("Complex") and depth < 3:
        return all(_is_zero(F, b, o, depth + 1) for o in r[3]["r"]["ops"])
    return False


def _header_of(F, b, operand, site_block):
    """Block of the `next()` call that produced the reference / index used by a store (the loop header), else the
    block of the store itself."""
    r = b.root(operand)
    seen = 0
    while seen < 6:
        seen += 1
        if r[0] == "field" and r[1][0] == "call":
            t = r[1][2]
            c = F.callee_of(t)
            if c and c["p"].endswith("Iterator::next"):
                return r[1][1]
            return site_block
        if r[0] == "other" and r[1] and r[1].get("k") == "=" and r[1]["r"]["k"] == "bin":
            # index arithmetic: look at both operands for a loop variable
            for side in ("a", "b"):
                rr = b.root(r[1]["r"][side])
                if rr[0] == "field" and rr[1][0] == "call":
                    c = F.callee_of(rr[1][2])
                    if c and c["p"].endswith("Iterator::next"):
                        return rr[1][1]
            return site_block
        break
    return site_block


def _region_of_iter(F, b, e, depth=0):
    """Which part of the underlying slice does an iterator expression walk?  ('suffix', start expr) | ('whole',) |
    ('range', lo, hi) | ('prefix', n) | None (not recognised)."""
    if depth > 12 or not isinstance(e, tuple):
        return None
    if e[0] == "call":
        n, args = e[1], e[2]
        if n.endswith("IntoIterator::into_iter") or n.endswith("Iterator::by_ref") or n.endswith("Iterator::enumerate") or n.endswith("Iterator::rev"):
            return _region_of_iter(F, b, args[0], depth + 1) if args else None
        if n.endswith("Iterator::skip") and len(args) == 2:
            inner = _region_of_iter(F, b, args[0], depth + 1)
            if inner == ("whole",):
                return ("suffix", args[1])
            return None
        if n.endswith("Iterator::take") and len(args) == 2:
            return ("prefix", args[1])
        if n.endswith("::iter_mut") or n.endswith("::iter"):
            return _region_of_slice(F, b, args[0], depth + 1) if args else None
        if n.endswith("Iterator::zip"):
            return None
    return None


def _region_of_slice(F, b, e, depth=0):
    if depth > 12 or not isinstance(e, tuple):
        return None
    if e[0] == "call":
        n, args = e[1], e[2]
        if (n.endswith("Index::index") or n.endswith("IndexMut::index_mut")) and len(args) == 2:
            rg = args[1]
            base = _region_of_slice(F, b, args[0], depth + 1)
            if rg[0] == "agg" and base == ("whole",):
                if rg[1].startswith("std::ops::RangeFrom") and len(rg[2]) == 1:
                    return ("suffix", rg[2][0])
                if rg[1].startswith("std::ops::RangeFull"):
                    return ("whole",)
                if rg[1].startswith("std::ops::RangeTo") and len(rg[2]) == 1:
                    return ("prefix", rg[2][0])
                if rg[1].startswith("std::ops::Range") and len(rg[2]) == 2:
                    return ("range", rg[2][0], rg[2][1])
            return None
        if any(n.endswith(s_) for s_ in ("Deref::deref", "DerefMut::deref_mut", "::as_mut_slice", "::as_slice", "BorrowMut::borrow_mut", "AsMut::as_mut")) and args:
            return _region_of_slice(F, b, args[0], depth + 1)
        return None
    if e[0] == "field":
        base, path = e[1], e[2]
        if base[0] == "call" and "split_at" in base[1] and len(base[2]) == 2 and path == (("f", 1),):
            inner = _region_of_slice(F, b, base[2][0], depth + 1)
            if inner == ("whole",):
                return ("suffix", base[2][1])
            return None
        # a named slice value (parameter, split part 0, ...) walked as a whole
        return ("whole",)
    if e[0] in ("param", "multi"):
        return ("whole",)
    return None


def _is_signal_len(F, b, e, depth=0):
    """Is the expression the length of the transform / of a data buffer: `x.len()` of a slice that is not derived from the
    scratch, `self.len()`, a field of self?  (Anything containing arithmetic is not.)"""
    if depth > 6 or not isinstance(e, tuple):
        return False
    if e[0] == "call":
        n, args = e[1], e[2]
        if n.endswith("<impl [T]>::len") and len(args) == 1:
            return True
        if n == "Length::len" or n.endswith("::len") and len(args) == 1 and args[0] == ("param", 1):
            return True
        return False
    if e[0] == "field" and e[1] == ("param", 1):
        return True
    if e[0] == "cast":
        return _is_signal_len(F, b, e[3], depth + 1)
    return False


class ZeroStores:
    def __init__(self, F):
        self.F = F
        self.K = kb_for(F)
        self._sites = {}
        self._summ = {}
        self._busy = set()

    def sites(self, b):
        """[(origin, header block, site block, node)] of zero stores in body b (including calls of local functions
        that zero-fill one of their parameters on every path)."""
        if b.id in self._sites:
            return self._sites[b.id]
        F = self.F
        out = []
        for bi, si, n in b.iter_nodes():
            if n["k"] == "=" and len(n["p"]) > 1 and n["r"]["k"] == "use" and _is_zero(F, b, n["r"]["o"]):
                p = n["p"]
                proj = p[1:]
                if proj == ["d"]:
                    o = origin(F, b, {"p": [p[0]]})
                    region = None
                    rr = b.root({"p": [p[0]]})
                    if rr[0] == "field" and rr[1][0] == "call" and rr[1][2]["args"]:
                        cc = F.callee_of(rr[1][2])
                        if cc and cc["p"].endswith("Iterator::next"):
                            region = _region_of_iter(F, b, b.expr(rr[1][2]["args"][0], rich=True))
                    out.append((o, _header_of(F, b, {"p": [p[0]]}, bi), bi, n, region))
                else:
                    idx = [e for e in proj if isinstance(e, list) and e[0] == "i"]
                    if idx:
                        o = origin(F, b, {"p": [p[0]]})
                        out.append((o, _header_of(F, b, {"p": [idx[0][1]]}, bi), bi, n, None))
            elif n["k"] == "call":
                c = F.callee_of(n)
                if not c:
                    continue
                name = c["p"]
                if name.endswith("<impl [T]>::fill") and len(n["args"]) == 2 and _is_zero(F, b, n["args"][1]):
                    out.append((origin(F, b, n["args"][0]), bi, bi, n, _region_of_slice(F, b, b.expr(n["args"][0], rich=True))))
                    continue
                if name.endswith("write_bytes") and len(n["args"]) == 3:
                    # memset(ptr, 0, n): for C08 (f32/f64) the all-zero bit pattern is zero; whether that is legitimate for
                    # an arbitrary element type is C14's business (R-RINGOPS rawbytes)
                    v = b.root(n["args"][1])
                    if v[0] == "const" and v[1].get("v") == 0:
                        pr = b.root(n["args"][0])
                        if pr[0] == "call" and pr[2]["args"]:
                            out.append((origin(F, b, pr[2]["args"][0]), bi, bi, n, _region_of_slice(F, b, b.expr(pr[2]["args"][0], rich=True))))
                    continue
                info = self.K.access_info(b, n)
                if info is not None and info[1].startswith("store") and len(n["args"]) >= 3 and _is_zero(F, b, n["args"][1]):
                    out.append((origin(F, b, n["args"][0]), _header_of(F, b, n["args"][-1], bi), bi, n, None))
                    continue
                if c.get("local"):
                    g = F.bodies.get(c.get("res", c["id"]))
                    if g is not None and g.kind != "Closure":
                        for k, greg in self.zero_params(g).items():
                            if k - 1 < len(n["args"]):
                                reg = _region_of_slice(F, b, b.expr(n["args"][k - 1], rich=True)) if greg == ("whole",) else None
                                out.append((origin(F, b, n["args"][k - 1]), bi, bi, n, reg))
        self._sites[b.id] = out
        return out

    def zero_params(self, g):
        """Parameters of g that receive a zero store whose loop header dominates every normal return."""
        if g.id in self._summ:
            return self._summ[g.id]
        if g.id in self._busy:
            return {}
        self._busy.add(g.id)
        res = {}
        rets = [bi for bi, bb in enumerate(g.blocks) if bb["t"]["k"] == "return"]
        dom = g.dominators()
        for (o, hdr, sb, n, reg) in self.sites(g):
            base = o
            while base[0] == "split":
                base = base[3]      # a part of a split of the parameter is still the parameter's buffer (region says which part)
            if base[0] == "param" and rets and all(hdr in dom.get(r, set()) for r in rets):
                if base[1] not in res or reg == ("whole",):
                    res[base[1]] = reg
        self._busy.discard(g.id)
        self._summ[g.id] = res
        return res


def _inner_calls(F, b):
    """[(block, term, kind, receiver origin)] for calls of Fft::process_* whose receiver is a field of self."""
    out = []
    for bi, t in b.calls():
        c = F.callee_of(t)
        if not c or not c["p"].startswith("Fft::"):
            continue
        m = c["p"].rsplit("::", 1)[-1]
        if m not in PROCESS or not t["args"]:
            continue
        ro = origin(F, b, t["args"][0])
        out.append((bi, t, m, ro))
    return out


def r_zerofill(F, cfg):
    R = Result("R-ZEROFILL", "Bluestein transforms overwrite the padding of their inner buffer with zeros on every path to the inner FFT")
    fft_adts = {F.impl_self_adt(i) for i in F.trait_impls("Fft")}
    blu = sorted(a for a in fft_adts if a and "bluestein" in a.lower())
    R.metric("bluestein_types", len(blu))
    Z = ZeroStores(F)
    n_fn = 0
    for adt in blu:
        for b in sorted(F.bodies.values(), key=lambda x: x.id):
            root = F.closure_parent(b) or b
            st = F.types[root.r["self_ty"]] if "self_ty" in root.r else None
            if not (st and st["k"] == "adt" and st["p"] == adt) or "trait" in root.r:
                continue
            calls = [x for x in _inner_calls(F, b) if x[3][0] == "self"]
            if not calls:
                continue
            n_fn += 1
            dom = b.dominators()
            firsts = [x for x in calls if not any(y is not x and y[0] in dom.get(x[0], set()) and y[0] != x[0] for y in calls)]
            zs = Z.sites(b)
            for (bi, t, m, ro) in firsts:
                kind, data_i, scr_i = PROCESS[m]
                buf = origin(F, b, t["args"][data_i])
                ok = [z for z in zs if _within(z[0], buf) and z[1] in dom.get(bi, set())]
                if ok:
                    regs = [z[4] for z in ok]
                    full = [r for r in regs if r == ("whole",) or (r and r[0] == "suffix" and _is_signal_len(F, b, r[1]))]
                    if all(r is not None for r in regs) and not full:
                        R.violation("zerofill-extent:%s" % b.name, b.where(ok[0][3]),
                                    "%s clears only part of the padding of %s before the inner FFT (%s): no zero fill runs from the end of the signal to the end of the buffer, so stale scratch reaches the convolution"
                                    % (b.name, _fmt(buf), "; ".join(_fmt_region(r) for r in regs)))
                        continue
                    R.ok({"fn": b.name, "inner_call": m, "buffer": _fmt(buf), "zero_fill_at": b.where(ok[0][3]),
                          "extent": _fmt_region(full[0]) if full else "not decided (vectorised / indexed fill)"}, nontrivial=True)
                else:
                    near = [z for z in zs if _within(z[0], buf)]
                    R.violation("zerofill:%s" % b.name, b.where(t),
                                "%s hands %s to the inner FFT without zero-filling its padding on every path first%s: the result then depends on the previous contents of the scratch"
                                % (b.name, _fmt(buf), " (a zero store exists but does not lie on every path)" if near else ""))
    R.metric("bluestein_kernels_with_inner_call", n_fn)
    return R


def _within(o, buf):
    """Is origin o the buffer `buf` itself or a part of a split of it?"""
    while True:
        if o == buf:
            return True
        if o[0] == "split":
            o = o[3]
            continue
        return False


def _fmt_region(r):
    if r is None:
        return "unrecognised"
    if r[0] == "whole":
        return "whole buffer"
    from .kbound import _expr_key
    if r[0] == "suffix":
        return "[%s..]" % _expr_key(r[1])
    if r[0] == "range":
        return "[%s..%s]" % (_expr_key(r[1]), _expr_key(r[2]))
    if r[0] == "prefix":
        return "[..%s]" % _expr_key(r[1])
    return str(r[0])


def _fmt(o):
    if o[0] == "split":
        return "part %d of split_at(%s)" % (o[2], _fmt(o[3]))
    if o[0] == "param":
        return "parameter %d" % o[1]
    if o[0] == "self":
        return "self." + ".".join(str(x) for x in o[1])
    return str(o[0])


# --------------------------------------------------------------------------- R-SCRATCHKIND
def _scratch_param(b):
    """Index of the scratch parameter of an entry method / perform function: the last slice parameter named *scratch*."""
    best = None
    for i in range(1, b.argc + 1):
        if "scratch" in b.var_name(i):
            best = i
    return best


class Taint:
    """Which slice values derive from the caller's scratch (intra-procedural by origin, inter-procedural through
    local calls and closures)."""

    def __init__(self, F):
        self.F = F
        self.K = kb_for(F)
        self.req = defaultdict(list)     # (adt) -> [(kind K of the entry, inner field path, inner kind, where)]
        self.sites = defaultdict(list)   # (adt) -> [(entry kind, receiver origin, inner kind, where, fn name, body, terminator)]
        self._seen = set()

    def derived(self, b, o, tainted):
        if o in tainted:
            return True
        if o[0] == "split":
            return self.derived(b, o[3], tainted)
        if o[0] == "multi":
            for (bi, si, n) in b.whole_defs(o[1]):
                if si == "t":
                    continue
                if n["r"]["k"] == "use":
                    if self.derived(b, origin(self.F, b, n["r"]["o"]), tainted):
                        return True
                elif n["r"]["k"] in ("ref", "rawptr"):
                    if self.derived(b, origin(self.F, b, {"p": n["r"]["p"]}), tainted):
                        return True
        if o[0] == "zip":
            return any(self.derived(b, x, tainted) for x in o[1])
        return False

    def walk(self, b, tainted, self_map, entry_kind, adt, depth=0, chain=()):
        """tainted: set of origins (in b) that derive from the scratch; self_map: origin in b -> field path of self
        (for inner transforms reached through parameters)."""
        F = self.F
        key = (b.id, frozenset(tainted), entry_kind, tuple(x[0] for x in chain))
        if key in self._seen or depth > 8:
            return
        self._seen.add(key)
        for bi, t in b.calls():
            c = F.callee_of(t)
            if not c:
                continue
            m = c["p"].rsplit("::", 1)[-1]
            if c["p"].startswith("Fft::") and m in PROCESS:
                kind, data_i, scr_i = PROCESS[m]
                if scr_i < len(t["args"]):
                    so = origin(F, b, t["args"][scr_i])
                    if self.derived(b, so, tainted):
                        ro = origin(F, b, t["args"][0])
                        self.req[adt].append((entry_kind, ro, kind, b.where(t), b.name))
                        self.sites[adt].append((entry_kind, ro, kind, b.where(t), b.name, b, t, chain))
                continue
            if not c.get("local"):
                continue
            g = F.bodies.get(c.get("res", c["id"]))
            if g is None:
                continue
            if g.kind == "Closure":
                # closure call: args[1] is the tuple
                tup = b.root(t["args"][1]) if len(t["args"]) > 1 else None
                if tup and tup[0] == "agg":
                    nt = set()
                    for k, op in enumerate(tup[3]["r"]["ops"]):
                        if self.derived(b, origin(F, b, op), tainted):
                            nt.add(("param", k + 2))
                    if nt:
                        self.walk(g, nt, self_map, entry_kind, adt, depth + 1, chain + ((g.id, b, t, True),))
                continue
            nt = set()
            for k, a in enumerate(t["args"]):
                if "p" in a or "c" in a:
                    if self.derived(b, origin(F, b, a), tainted):
                        nt.add(("param", k + 1))
            if nt:
                self.walk(g, nt, self_map, entry_kind, adt, depth + 1, chain + ((g.id, b, t, False),))
        # closures created here capture tainted values: analyse their bodies with the captured operands
        for bi, si, n in b.iter_nodes():
            if n["k"] == "=" and n["r"]["k"] == "agg" and n["r"].get("ak") == "closure":
                cb = F.bodies.get(n["r"]["id"])
                if cb is None:
                    continue
                # captured variables are fields of param 1 in the closure body; treat any use rooted there as tainted
                # when the captured operand is tainted
                caps = set()
                for k, op in enumerate(n["r"]["ops"]):
                    if self.derived(b, origin(F, b, op), tainted):
                        caps.add(k)
                if caps:
                    self.walk_closure(cb, caps, entry_kind, adt, depth + 1)

    def walk_closure(self, cb, caps, entry_kind, adt, depth):
        # origins inside a closure for captured variable k look like ('param', 1) via field path; origin() maps a field
        # of a non-self parameter to ('param', base) -- too coarse; handled by a dedicated scan
        F = self.F
        for bi, t in cb.calls():
            c = F.callee_of(t)
            if not c:
                continue
            m = c["p"].rsplit("::", 1)[-1]
            if c["p"].startswith("Fft::") and m in PROCESS:
                kind, data_i, scr_i = PROCESS[m]
                if scr_i < len(t["args"]):
                    r = cb.root(t["args"][scr_i])
                    if r[0] == "field" and r[1] == ("param", 1) and r[2] and r[2][0][0] == "f" and r[2][0][1] in caps:
                        self.req[adt].append((entry_kind, origin(F, cb, t["args"][0]), kind, cb.where(t), cb.name))


def _advertised_mentions(F, imp, getter):
    memo = F.__dict__.setdefault("_adv_memo", {})
    key = (imp["id"], getter)
    if key not in memo:
        memo[key] = _advertised_mentions_uncached(F, imp, getter)
    return memo[key]


def _advertised_mentions_uncached(F, imp, getter):
    """Set of (receiver description, kind) of the inner-getter calls the advertised length depends on, following the
    getter to the field it returns and that field to its initialisers in the constructors; plus the inner-getter calls
    that a constructor consults in a panicking guard (`assert!(inner.get_inplace_scratch_len() <= len)`), which bound
    the requirement instead of adding it. None when not traceable."""
    adt = F.impl_self_adt(imp)
    gb = F.body_of_impl_item(imp, getter)
    if gb is None:
        return None
    mentions = set()
    fields = set()

    def scan_expr(b, e, selfp, depth=0):
        if depth > 40 or not isinstance(e, tuple):
            return
        k = e[0]
        if k == "call":
            name = e[1]
            m = name.rsplit("::", 1)[-1]
            if name.startswith("Fft::") and m in GETTER_KIND and e[2]:
                rk = _recv_key(F, b, e[2][0])
                if rk[0] == "field" and selfp is None:
                    rk = ("?",)
                mentions.add((rk, GETTER_KIND[m]))
                return
            if len(e) > 5:
                t = b.blocks[e[5]]["t"]
                c = F.callee_of(t)
                if c:
                    g = F.bodies.get(c.get("res", c["id"]))
                    if g is not None:
                        # `(|this| ..)(self)`: the closure's parameter 2 is self
                        sp = None
                        if g.kind == "Closure" and selfp is not None and len(e[2]) == 2 and e[2][1][0] == "agg" and e[2][1][2] == [("param", selfp)]:
                            sp = 2
                        elif g.kind != "Closure" and selfp is not None and e[2] and e[2][0] == ("param", selfp) and "self_ty" in g.r:
                            sp = 1
                        scan_body(g, sp, depth + 1)
            for a in e[2]:
                scan_expr(b, a, selfp, depth + 1)
            return
        if k == "bin":
            scan_expr(b, e[2], selfp, depth + 1)
            scan_expr(b, e[3], selfp, depth + 1)
            return
        if k == "cast":
            scan_expr(b, e[3], selfp, depth + 1)
            return
        if k == "un":
            scan_expr(b, e[2], selfp, depth + 1)
            return
        if k == "field":
            base, path = e[1], e[2]
            if selfp is not None and base == ("param", selfp) and all(x[0] == "f" for x in path):
                fields.add(tuple(x[1] for x in path))
            elif base[0] == "multi" and len(base) > 1 and path and path[0][0] == "f":
                # component of a tuple assigned in several branches
                defs = b.tuple_field_defs(base[1], path[0][1])
                for (dbi, op) in defs or []:
                    scan_expr(b, b.expr(op, rich=True), selfp, depth + 1)
            return
        if k == "multi":
            for (bi, si, n) in b.whole_defs(e[1]):
                if si == "t":
                    c = F.callee_of(n)
                    if c:
                        fake = ("call", c["p"], [b.expr(a, rich=True) for a in n["args"]], [], "", bi)
                        scan_expr(b, fake, selfp, depth + 1)
                elif n["r"]["k"] == "use":
                    scan_expr(b, b.expr(n["r"]["o"], rich=True), selfp, depth + 1)
                elif n["r"]["k"] == "bin":
                    scan_expr(b, b.expr(n["r"]["a"], rich=True), selfp, depth + 1)
                    scan_expr(b, b.expr(n["r"]["b"], rich=True), selfp, depth + 1)
            return

    def scan_body(g, selfp, depth=0):
        if depth > 6:
            return
        scan_expr(g, g.expr({"p": [0]}, rich=True), selfp, depth + 1)

    scan_body(gb, 1)
    # follow `self.<field path>` reads to the constructors' initialisers
    for path in sorted(fields):
        inits = _field_initialisers(F, adt, path)
        if inits is None:
            return None
        for (cb, op) in inits:
            scan_expr(cb, cb.expr(op, rich=True), None)
    # requirements consulted by a panicking guard of a constructor
    from .tables import region_panics
    for cb in _constructors(F, adt):
        for bi in range(len(cb.blocks)):
            t = cb.blocks[bi]["t"]
            if t["k"] != "switch":
                continue
            if not any(region_panics(F, cb, s_) for s_ in cb.succ(bi)):
                continue
            scan_expr(cb, cb.expr(t["o"], rich=True), None)
    return mentions


def _adt_literals(F):
    """adt path -> [(body, aggregate statement)] for every struct literal in the crate (computed once)."""
    memo = F.__dict__.get("_adt_lit_memo")
    if memo is None:
        from .inline import inlined
        fft_adts = {F.impl_self_adt(i) for i in F.trait_impls("Fft")}
        memo = defaultdict(list)
        for b in F.bodies.values():
            if b.kind == "Closure":
                continue
            hits = [n for bi, si, n in b.iter_nodes() if n["k"] == "=" and n["r"]["k"] == "agg" and n["r"].get("ak") == "adt"]
            if not hits:
                continue
            body = b
            if any(n["r"].get("adt") in fft_adts for n in hits):
                # constructors are judged with their private helpers merged in (scratch arithmetic hoisted into a helper)
                def _pred(g, _fft=fft_adts):
                    if not _ctor_pred(g):
                        return False
                    st = F.types[g.r["self_ty"]] if "self_ty" in g.r else None
                    if g.r.get("ident", "").startswith("new") and st and st["k"] == "adt" and st["p"] in _fft:
                        return False      # constructors of other transforms are not helpers
                    return True
                _pred.__name__ = "ctor_pred"
                body = inlined(F, b, _pred, rounds=2, max_blocks=1500)
                hits = [n for bi, si, n in body.iter_nodes() if n["k"] == "=" and n["r"]["k"] == "agg" and n["r"].get("ak") == "adt"]
            for n in hits:
                memo[n["r"].get("adt")].append((body, n))
        F.__dict__["_adt_lit_memo"] = memo
    return memo


def _ctor_pred(g):
    """Helpers worth merging into a constructor: closures and small crate-private functions that are not twiddle
    generators and not constructors themselves."""
    if g.kind == "Closure":
        return len(g.blocks) <= 60
    if g.r.get("reachable") or g.r.get("pub") or "trait" in g.r:
        return False
    if g.name.startswith("twiddles::"):
        return False
    return len(g.blocks) <= 60


def _constructors(F, adt):
    seen = []
    for (b, n) in _adt_literals(F).get(adt, []):
        if b not in seen:
            seen.append(b)
    return seen


def _field_initialisers(F, adt, path):
    """[(constructor body, operand)] initialising self.<path> in every struct literal of `adt`."""
    out = []
    found = False
    for (b, n) in _adt_literals(F).get(adt, []):
            if True:
                found = True
                node = n["r"]
                cur = None
                for j, fidx in enumerate(path):
                    if node is None:
                        break       # the rest of the path projects into a value built elsewhere (Box<[T]> internals)
                    if fidx >= len(node["ops"]):
                        return None
                    cur = node["ops"][fidx]
                    r = b.root(cur)
                    node = r[3]["r"] if (r[0] == "agg" and r[3]["r"].get("ak") == "adt") else None
                if cur is None:
                    return None
                out.append((b, cur))
    return out if found else None


def _recv_key(F, b, e):
    """Describe the receiver of an inner getter / process call so that constructor-side and kernel-side names can be
    matched: the parameter / field it ultimately is."""
    seen = 0
    while isinstance(e, tuple) and seen < 8:
        seen += 1
        if e[0] == "call" and e[2] and any(e[1].endswith(s) for s in ("Deref::deref", "AsRef::as_ref", "Borrow::borrow", "Clone::clone", "Arc::<T, A>::clone", "::as_ref")):
            e = e[2][0]
            continue
        break
    if e[0] == "param":
        return ("param", b.var_name(e[1]))
    if e[0] == "field" and e[1][0] == "param":
        return ("field", tuple(x[1] for x in e[2] if x[0] == "f"))
    if e[0] == "multi":
        return ("local", b.var_name(e[1]))
    return ("?",)


def r_scratchkind(F, cfg):
    R = Result("R-SCRATCHKIND", "the advertised scratch length of each kind mentions the requirement (of the matching kind) of every inner transform that is handed part of that scratch")
    from .entry import ENTRY_METHODS
    from .symbound import _sym_roles
    K = kb_for(F)
    roles = _sym_roles(F, K)
    n_types = 0
    n_req = 0
    for imp in F.trait_impls("Fft"):
        adt = F.impl_self_adt(imp)
        if adt is None or adt in K.fixed:
            continue
        # inner transform fields of the ADT (Arc<dyn Fft<T>>), by field path; constructor parameter names that initialise them
        inner_fields = _inner_fields(F, adt)
        if not inner_fields:
            continue
        n_types += 1
        T = Taint(F)
        for mname, (kind, getter) in ENTRY_METHODS.items():
            b = F.body_of_impl_item(imp, mname)
            if b is None:
                continue
            # the chunk closures this entry point hands to the validating helper: their scratch parameter is the
            # caller's scratch trimmed to the advertised length (R-ENTRY / R-HELPER)
            for bi, si, n in b.iter_nodes():
                if n["k"] == "=" and n["r"]["k"] == "agg" and n["r"].get("ak") == "closure":
                    cid = n["r"]["id"]
                    role = roles.get(cid)
                    cb = F.bodies.get(cid)
                    if role is None or cb is None:
                        continue
                    scr = [i for i, (mb, op, mult) in role.items() if _is_required_scratch(F, mb, op)]
                    if scr:
                        T.walk(cb, {("param", i) for i in scr}, {}, kind, adt)
        reqs = T.req.get(adt, [])
        by_kind = defaultdict(list)
        for (ek, ro, ik, where, fn) in reqs:
            by_kind[ek].append((ro, ik, where, fn))
        for mname, (kind, getter) in ENTRY_METHODS.items():
            if not by_kind.get(kind):
                continue
            ment = _advertised_mentions(F, imp, getter)
            if ment is None:
                R.undecided.append({"type": adt, "entry": mname, "status": "NOT DECIDED: the advertised length cannot be traced to its initialiser"})
                R.instances += 1
                continue
            # translate constructor-side receivers to field paths
            ment_fields = set()
            for (rk, ik) in ment:
                if rk[0] == "field":
                    ment_fields.add((rk[1], ik))
                elif rk[0] in ("param", "local"):
                    for path, names in inner_fields.items():
                        if rk[1] in names:
                            ment_fields.add((path, ik))
            for (ro, ik, where, fn) in by_kind[kind]:
                n_req += 1
                if ro[0] != "self":
                    R.undecided.append({"type": adt, "entry": mname, "site": where, "status": "NOT DECIDED: inner transform is not a field of self"})
                    R.instances += 1
                    continue
                path = ro[1]
                # match on a prefix: `self.common_data.inner_fft` vs constructor-side `inner_fft`
                hit = any((p == path or p == path[-len(p):] or path == p[-len(path):]) and k2 == ik for (p, k2) in ment_fields)
                if hit:
                    R.ok({"type": adt, "entry": mname, "inner": "self." + ".".join(map(str, path)), "needs": ik,
                          "advertised_formula_mentions": sorted("%s:%s" % (".".join(map(str, p)), k2) for p, k2 in ment_fields)}, nontrivial=True, sample_cap=14)
                else:
                    R.violation("scratchkind:%s:%s:%s" % (adt, kind, ik), where,
                                "%s hands part of the caller's %s scratch to inner transform self.%s as its %s scratch, but the value returned by %s does not depend on that transform's get_%s_scratch_len() "
                                "(it mentions: %s)" % (fn, kind, ".".join(map(str, path)), ik, getter, {"inplace": "inplace", "outofplace": "outofplace", "immut": "immutable"}[ik],
                                                       sorted("%s:%s" % (".".join(map(str, p)), k2) for p, k2 in ment_fields) or "no inner requirement"))
    R.metric("wrapper_types", n_types)
    R.metric("scratch_handoffs", n_req)
    return R


def _is_required_scratch(F, mb, op):
    """Is the length operand of a closure role the scratch requirement (a getter call / constant), as opposed to the
    chunk size `self.len()`?"""
    r = mb.root(op)
    if r[0] == "call":
        c = F.callee_of(r[2])
        return bool(c) and c["p"].rsplit("::", 1)[-1] in GETTER_KIND
    return False


def _inner_fields(F, adt):
    """{field path: set of constructor-side variable names that initialise it} for fields of type Arc<dyn Fft<T>>
    (one level of nesting: CommonSimdData)."""
    rec = F.adts_by_name.get(adt)
    if rec is None:
        return {}
    out = {}

    def walk(r, prefix, depth):
        for fi, f in enumerate(r["variants"][0]["fields"]):
            ts = F.ts(f["ty"])
            if "dyn Fft<" in ts and ts.startswith("std::sync::Arc<"):
                out[prefix + (fi,)] = set()
            elif depth < 1:
                t = F.types[f["ty"]]
                if t["k"] == "adt" and t.get("local"):
                    sub = F.adts_by_name.get(t["p"])
                    if sub and sub.get("kind", "struct") != "enum" and len(sub["variants"]) == 1:
                        walk(sub, prefix + (fi,), depth + 1)
    if len(rec["variants"]) != 1:
        return {}
    walk(rec, (), 0)
    for path in list(out):
        inits = _field_initialisers(F, adt, path) or []
        for (cb, op) in inits:
            r = cb.root(op)
            if r[0] == "param":
                out[path].add(cb.var_name(r[1]))
            elif r[0] == "multi":
                out[path].add(cb.var_name(r[1]))
            elif "p" in op and len(op["p"]) == 1:
                out[path].add(cb.var_name(op["p"][0]))
            if r[0] == "call":
                # Arc::clone(&x)
                t = r[2]
                if t["args"]:
                    rr = cb.root(t["args"][0])
                    if rr[0] == "param":
                        out[path].add(cb.var_name(rr[1]))
    return out
