"""./check selftest [name-substring ...]

Validates the checkers both ways on scratch copies of /repo (never /repo itself):
  selftest/mutants.json  - must fire: one-instance breakages that still compile; the named
                            property's check must report a violation whose key contains `expect`.
  selftest/benign.json   - must stay silent: behaviour-preserving edits; every listed property must pass.
Each entry: {"name", "desc", "edits": [{"file", "old", "new", "count"?}], "props": [...], "expect": "..."}.
Copies live under a mkdtemp directory outside /repo and /verif and are removed immediately.
"""
import json
import os
import shutil
import subprocess
import sys
import tempfile
from concurrent.futures import ThreadPoolExecutor


def apply_edits(root, edits):
    for e in edits:
        p = os.path.join(root, e["file"])
        s = open(p).read()
        if e["old"] not in s:
            raise RuntimeError("edit anchor not found in %s: %r" % (e["file"], e["old"][:80]))
        cnt = e.get("count", 1)
        if cnt == "all":
            s = s.replace(e["old"], e["new"])
        else:
            s = s.replace(e["old"], e["new"], cnt)
        open(p, "w").write(s)


def run_one(here, entry, kind):
    work = tempfile.mkdtemp(prefix="rfv-self.")
    try:
        src = os.path.join(work, "repo")
        subprocess.check_call(["rsync", "-a", "--exclude", "target", "--exclude", ".git", "/repo/", src + "/"])
        try:
            if "patch" in entry:
                pr = subprocess.run(["git", "apply", "--whitespace=nowarn", os.path.join(here, entry["patch"])], cwd=src,
                                    stdout=subprocess.PIPE, stderr=subprocess.STDOUT, text=True)
                if pr.returncode != 0:
                    raise RuntimeError("patch does not apply: " + pr.stdout[-300:])
            apply_edits(src, entry.get("edits", []))
        except RuntimeError as ex:
            return entry["name"], False, "EDIT FAILED: %s" % ex
        outs = []
        ok_all = True
        for prop in entry["props"]:
            p = subprocess.run([os.path.join(here, "check"), prop, "--src", src, "--tier", entry.get("tier", "quick")],
                               stdout=subprocess.PIPE, stderr=subprocess.STDOUT, text=True)
            out = p.stdout
            # replay files of scratch runs live in their own temp dir: remove them once read
            import re as _re
            for mm in _re.finditer(r"replay=(/tmp/rfv-replay\.[A-Za-z0-9_]+)/", out):
                shutil.rmtree(mm.group(1), ignore_errors=True)
            if "does not type-check" in out or "failed to type-check" in out:
                return entry["name"], False, "MUTANT DOES NOT COMPILE\n" + out[-1500:]
            if kind == "mutant":
                fired = p.returncode == 1 and "VIOLATION property=%s" % prop in out
                exp = entry.get("expect")
                if fired and exp and exp not in out:
                    fired = False
                    outs.append("fired, but not with the expected key %r" % exp)
                if not fired:
                    ok_all = False
                    outs.append("[%s] NOT DETECTED rc=%d\n%s" % (prop, p.returncode, out[-1200:]))
                else:
                    line = [l for l in out.splitlines() if exp in l] if exp else out.splitlines()[-2:-1]
                    outs.append("[%s] detected: %s" % (prop, (line[0].strip() if line else "")[:220]))
            else:
                if p.returncode != 0:
                    ok_all = False
                    outs.append("[%s] FALSE ALARM rc=%d\n%s" % (prop, p.returncode, out[-1500:]))
                else:
                    outs.append("[%s] silent" % prop)
        return entry["name"], ok_all, "\n".join(outs)
    finally:
        shutil.rmtree(work, ignore_errors=True)


def main(here, args):
    filt = [a for a in args if not a.startswith("-")]
    jobs = []
    for kind, fn in (("mutant", "mutants.json"), ("benign", "benign.json")):
        p = os.path.join(here, "selftest", fn)
        if not os.path.exists(p):
            continue
        for e in json.load(open(p)):
            if filt and not any(f in e["name"] for f in filt):
                continue
            jobs.append((kind, e))
    bad = 0
    with ThreadPoolExecutor(max_workers=int(os.environ.get("RFV_JOBS", "6"))) as ex:
        futs = [(kind, e, ex.submit(run_one, here, e, kind)) for kind, e in jobs]
        for kind, e, f in futs:
            name, ok, msg = f.result()
            print("%s %-7s %s: %s" % ("PASS" if ok else "FAIL", kind, name, e["desc"]))
            for l in msg.splitlines():
                print("      " + l)
            if not ok:
                bad += 1
    print("selftest: %d entries, %d failed" % (len(jobs), bad))
    return 1 if bad else 0
