"""R-SMALLGUARD (C04): the `*Small` recipes are only chosen for children that can satisfy their constructor asserts.

`MixedRadixSmall::new` / `GoodThomasAlgorithmSmall::new` assert that both inner transforms need no out-of-place
scratch and no more in-place scratch than their own length. The planners select these recipes under a guard
`left_len < K && right_len < K`. A child below K is a butterfly, a product of smaller children (again below K), or a
prime without a butterfly, which `design_prime` routes to Rader's algorithm (scratch-free on a scratch-free inner) or --
when p-1 has a prime factor above MAX_RADER_PRIME_FACTOR -- to Bluestein's algorithm, whose out-of-place scratch is
never 0: the assert then fires and `plan_fft` panics for every length p*m with such a split.

Judgement, per planner (scalar, SSE): for every construction site of a `*Small` recipe that is dominated by constant
upper bounds on lengths, no prime p below the largest such bound is (i) without an arm in the planner's butterfly
table and (ii) routed to Bluestein by the planner's own `design_prime` test, evaluated with the planner's own constant.
The butterfly table, the bound K and MAX_RADER_PRIME_FACTOR are all read from the code on every run; a site without a
recognisable guard, or a `design_prime` of another shape, is reported as not decided (no alarm).
"""
from .core import Result
from .tables import _butterfly_design_table, _one, array_literal, region_panics

SMALL = ("MixedRadixSmall", "GoodThomasAlgorithmSmall")
PLANNERS = (
    ("scalar", "plan::FftPlannerScalar", "plan::Recipe", None),
    ("sse", "sse::sse_planner::FftPlannerSse", "sse::sse_planner::Recipe", "sse::sse_prime_butterflies::prime_butterfly_lens"),
)


def _primes_upto(n):
    return [p for p in range(2, n + 1) if all(p % d for d in range(2, int(p ** 0.5) + 1))]


def _max_prime_factor(n):
    m = 1
    d = 2
    while d * d <= n:
        while n % d == 0:
            m = max(m, d)
            n //= d
        d += 1
    return max(m, n) if n > 1 else m


def _upper_bounds_dominating(F, b, bi):
    """Constants k such that an edge dominating block bi established  (something) <= k."""
    out = []
    dom = b.dominators().get(bi, {bi})
    preds = b.preds()
    for s in sorted(dom):
        ps = preds.get(s, [])
        if len(ps) != 1:
            continue
        d = ps[0]
        t = b.blocks[d]["t"]
        if t["k"] != "switch":
            continue
        targets = [c[1] for c in t["cases"]] + [t["otherwise"]]
        if targets.count(s) != 1:
            continue
        e = b.expr(t["o"])
        if e[0] != "bin" or e[1] not in ("Lt", "Le", "Gt", "Ge"):
            continue
        case_vals = [c[0] for c in t["cases"] if c[1] == s]
        truth = not (case_vals == [0])
        op, x, y = e[1], e[2], e[3]
        if not truth:
            op = {"Lt": "Ge", "Le": "Gt", "Gt": "Le", "Ge": "Lt"}[op]
        # normalise to  var OP const
        if x[0] == "const" and isinstance(x[1], int) and y[0] != "const":
            op = {"Lt": "Gt", "Le": "Ge", "Gt": "Lt", "Ge": "Le"}[op]
            x, y = y, x
        if y[0] == "const" and isinstance(y[1], int) and x[0] != "const":
            if op == "Lt":
                out.append(y[1] - 1)
            elif op == "Le":
                out.append(y[1])
    return out


def _rader_limit(F, design_prime):
    """(MAX_RADER_PRIME_FACTOR value, shape_ok): `if factors.any(|f| f.value > MAX) { Bluestein } else { Rader }`."""
    bodies = [design_prime] + [cb for cb in F.bodies.values() if cb.kind == "Closure" and F.closure_parent(cb) is design_prime]
    limit = None
    for body in bodies:
        for bi, si, n in body.iter_nodes():
            if n["k"] == "=" and n["r"]["k"] == "bin" and n["r"]["op"] in ("Gt", "Ge", "Lt", "Le"):
                for side, other in (("a", "b"), ("b", "a")):
                    o = n["r"][side]
                    c = o.get("c") if isinstance(o, dict) else None
                    if c and str(c.get("p", "")).endswith("MAX_RADER_PRIME_FACTOR"):
                        v = c.get("v")
                        if v is None:
                            lit = F.const_literal(c["p"])
                            v = lit.get("v") if lit else None
                        if isinstance(v, int):
                            # `value > MAX` (or MAX < value): strict; `>=` would make the limit one lower
                            opn = n["r"]["op"]
                            strict = (side == "b" and opn == "Gt") or (side == "a" and opn == "Lt")
                            nonstrict = (side == "b" and opn == "Ge") or (side == "a" and opn == "Le")
                            if strict:
                                limit = v
                            elif nonstrict:
                                limit = v - 1
    if limit is None:
        return None, False
    # the `any` result selects Bluestein on its true edge
    anyb = None
    for bi, t in design_prime.calls():
        c = F.callee_of(t)
        if c and c["p"].endswith("Iterator::any"):
            anyb = (bi, t)
    if anyb is None:
        return limit, False
    bi, t = anyb
    nxt = t.get("t")
    hops = 0
    while nxt is not None and design_prime.blocks[nxt]["t"]["k"] == "goto" and hops < 4:
        nxt = design_prime.blocks[nxt]["t"]["t"]
        hops += 1
    if nxt is None or design_prime.blocks[nxt]["t"]["k"] != "switch":
        return limit, False
    sw = design_prime.blocks[nxt]["t"]
    if design_prime.root(sw["o"]) != ("call", bi, t):
        return limit, False
    true_succ = sw["otherwise"] if [c for c in sw["cases"] if c[0] == 0] else None
    false_succ = next((c[1] for c in sw["cases"] if c[0] == 0), None)
    if true_succ is None or false_succ is None:
        return limit, False
    dom = design_prime.dominators()
    blu = rad = None
    for abi, si, n in design_prime.iter_nodes():
        if n["k"] == "=" and n["r"]["k"] == "agg" and n["r"].get("ak") == "adt" and n["r"]["adt"].endswith("Recipe"):
            if n["r"].get("vname") == "BluesteinsAlgorithm":
                blu = abi
            elif n["r"].get("vname") == "RadersAlgorithm":
                rad = abi
    if blu is None or rad is None:
        return limit, False
    ok = true_succ in dom.get(blu, set()) and false_succ in dom.get(rad, set())
    return limit, ok


def r_smallguard(F, cfg):
    R = Result("R-SMALLGUARD", "MixedRadixSmall / GoodThomasAlgorithmSmall recipes are only selected for children that satisfy their constructor asserts "
                               "(no child below the guard is a prime the planner itself routes to Bluestein's algorithm)")
    feats = set(cfg.get("features", []))
    n_sites = 0
    for label, planner, recipe, prime_fn in PLANNERS:
        if not F.methods(planner, "design_butterfly_algorithm"):
            if label == "scalar":
                R.violation("smallguard:anchor:%s" % label, "src/plan.rs", "%s::design_butterfly_algorithm not found" % planner)
            continue
        design = _one(F, planner, "design_butterfly_algorithm", R)
        dprime = _one(F, planner, "design_prime", R, required=False)
        if design is None:
            continue
        fly = set(_butterfly_design_table(F, design, recipe, R).keys())
        if prime_fn:
            lf = F.fn(prime_fn)
            lens = array_literal(F, lf, {"p": [0]}) if lf else None
            if lens:
                fly |= set(lens)
        limit, shape_ok = _rader_limit(F, dprime) if dprime else (None, False)
        R.metric("%s_butterfly_lens" % label, len(fly))
        for b in sorted(F.bodies.values(), key=lambda x: x.id):
            root = F.closure_parent(b) or b
            st = F.types[root.r["self_ty"]] if "self_ty" in root.r else None
            if not (st and st["k"] == "adt" and st["p"] == planner):
                continue
            for bi, si, n in b.iter_nodes():
                if not (n["k"] == "=" and n["r"]["k"] == "agg" and n["r"].get("ak") == "adt" and n["r"]["adt"] == recipe and n["r"].get("vname") in SMALL):
                    continue
                n_sites += 1
                ubs = _upper_bounds_dominating(F, b, bi)
                if b.kind == "Closure":
                    pass
                if not ubs:
                    R.undecided.append({"function": b.name, "site": b.where(n), "recipe": n["r"]["vname"],
                                        "status": "NOT DECIDED: no constant upper bound on the child lengths dominates this construction (children chosen from a table)"})
                    R.instances += 1
                    continue
                if limit is None or not shape_ok:
                    R.undecided.append({"function": b.name, "site": b.where(n), "recipe": n["r"]["vname"],
                                        "status": "NOT DECIDED: design_prime does not have the recognised Rader/Bluestein selection shape"})
                    R.instances += 1
                    continue
                ub = max(ubs)
                bad = [p for p in _primes_upto(ub) if p not in fly and _max_prime_factor(p - 1) > limit]
                if bad:
                    R.violation("smallguard:%s:%s:%s" % (label, b.name, n["r"]["vname"]), b.where(n),
                                "%s builds Recipe::%s for children of length up to %d, but the %s planner plans the prime(s) %s with Bluestein's algorithm "
                                "(no butterfly; %d-1 has a prime factor above MAX_RADER_PRIME_FACTOR=%d), whose out-of-place scratch is never 0: "
                                "%s::new asserts and plan_fft panics for lengths %d*m"
                                % (b.name, n["r"]["vname"], ub, label, bad, bad[0], limit, n["r"]["vname"], bad[0]))
                else:
                    R.ok({"planner": label, "fn": b.name, "recipe": n["r"]["vname"], "children_below": ub + 1,
                          "primes_without_butterfly_below_guard": [p for p in _primes_upto(ub) if p not in fly],
                          "max_rader_prime_factor": limit}, nontrivial=True)
    R.metric("small_recipe_sites", n_sites)
    return R
