#!/usr/bin/env python3
"""Pretty-print MIR bodies from a fact file: show.py facts.jsonl <substring of name or id> [--full]"""
import sys, json
sys.path.insert(0, '/verif')
from rules.facts import Facts

def pl(p):
    s = "_%d" % p[0]
    for e in p[1:]:
        if e == "d": s = "(*%s)" % s
        elif e[0] == "f": s += ".%d" % e[1]
        elif e[0] == "i": s += "[_%d]" % e[1]
        elif e[0] == "dc": s += " as v%d" % e[1]
        else: s += str(e)
    return s
def op(F, o):
    if "p" in o: return ("move " if o.get("mv") else "") + pl(o["p"])
    c = o.get("c")
    if c is None: return str(o)
    if c["k"] == "fn":
        a = ",".join(F.ts(x) if isinstance(x,int) else str(x) for x in c["a"])
        return "%s::<%s>%s" % (c["p"], a, (" =>" + c["resp"]) if "resp" in c else "")
    if "v" in c: return "const %s" % c["v"]
    return "const{%s %s}" % (c.get("p", ""), c.get("s", ""))
def rv(F, r):
    k = r["k"]
    if k == "use": return op(F, r["o"])
    if k in ("ref", "rawptr"): return ("&mut " if r["m"] else "&") + ("raw " if k == "rawptr" else "") + pl(r["p"])
    if k == "cast": return "%s as %s (%s)" % (op(F, r["o"]), F.ts(r["to"]), r["ck"])
    if k == "bin": return "%s(%s, %s)" % (r["op"], op(F, r["a"]), op(F, r["b"]))
    if k == "un": return "%s(%s)" % (r["op"], op(F, r["a"]))
    if k == "discr": return "discr(%s)" % pl(r["p"])
    if k == "agg":
        if r["ak"] == "adt": h = "%s::%s" % (r["adt"], r["vname"])
        elif r["ak"] == "closure": h = "closure %s" % r["id"]
        else: h = r["ak"]
        return "%s{%s}" % (h, ", ".join(op(F, x) for x in r["ops"]))
    return json.dumps(r)
def show(F, b):
    print("=" * 100)
    print(b.id, "|", b.name, "|", b.kind, b.where(), "tf=", b.r["tf"], "generics=", b.r["generics"])
    for i, t in enumerate(b.locals):
        tag = "arg" if 1 <= i <= b.argc else ("ret" if i == 0 else "")
        print("   let _%d: %s  %s %s" % (i, F.ts(t), tag, b.var_name(i) if b.var_name(i) != "_%d" % i else ""))
    for bi, bb in enumerate(b.blocks):
        print(" bb%d%s:" % (bi, " (cleanup)" if bb.get("cleanup") else ""))
        for s in bb["s"]:
            if s["k"] == "=": print("    %s = %s    // %s %s" % (pl(s["p"]), rv(F, s["r"]), s.get("l"), s.get("m", "")))
            else: print("    ", json.dumps(s))
        t = bb["t"]
        k = t["k"]
        if k == "call": print("    %s = %s(%s) -> bb%s    // %s %s" % (pl(t["d"]), op(F, t["f"]), ", ".join(op(F, a) for a in t["args"]), t["t"], t.get("l"), t.get("m", "")))
        elif k == "switch": print("    switch %s %s else bb%s" % (op(F, t["o"]), t["cases"], t["otherwise"]))
        elif k == "goto": print("    goto bb%d" % t["t"])
        elif k == "drop": print("    drop %s -> bb%s" % (pl(t["p"]), t["t"]))
        elif k == "assert": print("    assert %s == %s -> bb%s  %s" % (op(F, t["o"]), t["expected"], t["t"], t["msg"]))
        else: print("    ", k)
if __name__ == "__main__":
    F = Facts(sys.argv[1])
    pat = sys.argv[2]
    for b in F.bodies.values():
        if pat in b.name or pat in b.id:
            if "--nocleanup" in sys.argv:
                pass
            show(F, b)
