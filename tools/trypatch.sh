#!/bin/bash
# usage: trypatch.sh <patch.diff> [tier] [props...]
#   applies the patch to a scratch copy of /repo (outside /repo and /verif), runs the named checks
#   (default: all twelve) in parallel with --src, prints one summary line per property plus the
#   violation lines, and removes the copy.  Never touches /repo, never writes evidence.
P=$(readlink -f "$1"); shift
TIER=${1:-quick}; shift
PROPS=${@:-C02 C03 C04 C05 C06 C09 C10 C11 C13 C14 C15 C16}
D=$(mktemp -d /tmp/rfv-try.XXXXXX)
trap 'rm -rf "$D"' EXIT
rsync -a --exclude target --exclude .git /repo/ "$D/repo/"
( cd "$D/repo" && git init -q . && git apply --whitespace=nowarn "$P" ) || { echo "PATCH DOES NOT APPLY: $P"; exit 3; }
export RFV_NO_EVIDENCE=1
for p in $PROPS; do
  ( /verif/check $p --tier $TIER --src "$D/repo" > "$D/$p.out" 2>&1; echo "$p exit=$?" >> "$D/$p.out" ) &
  # at most 6 at a time
  while [ "$(jobs -r | wc -l)" -ge 6 ]; do sleep 0.5; done
done
wait
for p in $PROPS; do
  st=$(tail -1 "$D/$p.out")
  if grep -q "^VIOLATION" "$D/$p.out"; then
    echo "== $p: ALARM ($st)"
    grep -v "^\[" "$D/$p.out" | grep -v "^OK" | grep -v "exit=" | head -${MAXLINES:-8} | cut -c1-${MAXCOLS:-400}
  else
    echo "== $p: silent ($st)"
    grep -q "^OK" "$D/$p.out" || tail -5 "$D/$p.out"
  fi
done
