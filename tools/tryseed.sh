#!/bin/bash
# usage: tryseed.sh <patch.diff> <Cxx> [more props...]  -- applies the patch to a scratch copy of /repo and runs the checks with --src
set -e
P=$1; shift
D=$(mktemp -d /tmp/rfv-seedtry.XXXXXX)
trap 'rm -rf "$D"' EXIT
rsync -a --exclude target --exclude .git /repo/ $D/repo/
( cd $D/repo && git init -q . 2>/dev/null; git -C $D/repo apply --whitespace=nowarn "$P" ) || { echo "PATCH DOES NOT APPLY"; exit 3; }
for prop in "$@"; do
  /verif/check $prop --src $D/repo | grep -v "^\[" | tail -12
done
