#!/usr/bin/env python3
"""Regenerate /verif/MANIFEST.json from rules/registry.py (claimed properties) and the N/A table below."""
import json, sys
sys.path.insert(0, '/verif')
from rules import registry

NA = {
 "C01": "numerical identity with the DFT for all inputs is value-level; no clause is visible in the shape of the code beyond what C04/C06 claim (lengths, directions); deciding it needs execution or symbolic algebra (a different technique family)",
 "C07": "equality of per-chunk results is value-level, and isolation can only leak through stale scratch (C08) or out-of-chunk accesses (C03); the structural part (disjoint split_at chunks, each visited once) is checked under C09",
 "C12": "whether a nest of constructors satisfies each precondition and computes the right values depends on run-time lengths and values; the per-type rules of C03/C09/C11/C15 hold for every public algorithm type regardless of nesting",
}
PENDING = "checker not built yet in this round (see DESIGN.md section 9 build order)"
TECH = {
 "C02": "static analysis: MIR def-use / taint rules on the twiddle generators (f64-only angle computation, integer mod before the chirp, no twiddle recurrence), zero-count lints with positive controls (no iterator reduction of element values, no f32-to-f64 widening, from_f64 of constants only)",
 "C03": "static analysis: entry/validation discipline, interval analysis of fixed-size kernel indices, symbolic (polynomial, quotient/remainder identities, per-instantiation) bounds of run-time-length kernel indices with concrete-witness refutation, SIMD primitive width table, available-facts dataflow for CPU-feature and TypeId gates (rustc_private MIR driver)",
 "C04": "static analysis: switch-table extraction and cross-checking of planner tables, direction def-use incl. wrapper delegation, zero-length guards, cache-splice idiom check, guard-constant vs butterfly-table vs Rader/Bluestein routing check for the *Small recipes",
 "C05": "static analysis: who-may-call + interval bound on every Dft::new call site (clause 2 only)",
 "C06": "static analysis: cache accessor table agreement, direction provenance (def-use) through every constructor, constant-precision lints (from_f64/from_usize only, no f32 widening)",
 "C08": "static analysis: def-use provenance of scratch through kernels and constructors (which inner transform receives which part of the scratch, which requirement each advertised-length formula consults), must-pass-through dominance check and extent of the Bluestein zero fill, validator trim (path-must dataflow), symbolic comparison of each scratch hand-off with the inner requirement using guarded constructor formulas (case-split polynomial inequalities, concrete-witness refutation)",
 "C09": "static analysis: path-must dataflow over validator CFGs, def-use provenance of entry-point arguments, error-sink reachability",
 "C10": "static analysis: cache-key provenance, nondeterminism-source lint over planner-reachable code",
 "C11": "static analysis: deep type walk + MIR cast/call lints (rustc_private driver) + compile-time auto-trait witness with compile-fail twins",
 "C13": "static analysis: available-facts (CPU feature) dataflow over the call graph under all four cargo feature sets",
 "C14": "static analysis: TypeId-gate dataflow + type-level witness (minimal non-float element type) checked by rustc + whitelist of operations applied to the generic element type (ring ops, from_f64/from_usize, no raw-byte construction)",
 "C15": "static analysis: ownership/mutability lint over MIR casts and calls + trait-impl inventory",
 "C16": "static analysis: type-level witness crate (compile-pass + compile-fail twins) and public-surface inventory from the resolved module tree",
}
ALL = ["C%02d" % i for i in range(1, 17)]
checks = []
for pid in ALL:
    if pid not in registry.PROPS:
        continue
    sp = registry.PROPS[pid]
    checks.append({
        "property_id": pid,
        "quick_cmd": "./check %s --tier quick" % pid,
        "thorough_cmd": "./check %s --tier thorough" % pid,
        "evidence_file": "evidence/%s.json" % pid,
        "replay_cmd_template": "./check --replay {path}",
        "engine": "rfv-driver + rules" + (" + witness" if sp.get("witnesses") else ""),
        "level_claimed": {"category": sp["level"], "text": "Decides: %s. Does not decide: %s. %s" % (sp["decides"], sp["does_not_decide"], sp["explanation"][:600]),
                          "design_ref": "DESIGN.md section 4, %s" % pid},
        "level_note": "Trusted: rustc (type/borrow checker, MIR construction), the rfv-driver dump, the rule tables in /verif/rules. " + "; ".join(sp.get("assumptions", [])),
        "technique": TECH[pid],
    })
na = []
for pid in ALL:
    if pid in registry.PROPS:
        continue
    na.append({"property_id": pid, "reason": NA.get(pid, PENDING)})
claimed = [c["property_id"] for c in checks]
m = {
 "version": 1,
 "setup_cmd": "cd /verif/driver && CARGO_NET_OFFLINE=true cargo +nightly build --release --offline",
 "hooks": {
  "guard": "rustfft_verif",
  "enable": "none needed: the analyses read the real build (cargo +nightly check with the rfv-driver rustc wrapper); no hook exists in /repo",
  "baseline_off_cmd": "cd /repo && cargo test --workspace --no-fail-fast --offline",
  "source_commits": [],
  "add_only": True,
 },
 "engines": [
  {"name": "rfv-driver", "path": "driver/", "serves_properties": claimed, "kind_free_text": "rustc_private driver dumping the type-checked crate (items, public surface, interior-mutability type walk, MIR with resolved callees, promoted constants) as JSON lines"},
  {"name": "rules", "path": "rules/", "serves_properties": claimed, "kind_free_text": "Python rule engine over the driver's fact file: def-use provenance, CFG must-dataflow, switch-table extraction, interval analysis, zero-count lints with positive controls"},
  {"name": "witness", "path": "witness/", "serves_properties": [p for p in claimed if registry.PROPS[p].get("witnesses")], "kind_free_text": "downstream witness crates + compile-fail twins decided by rustc (error codes read from JSON diagnostics)"},
  {"name": "selftest", "path": "selftest/", "serves_properties": claimed, "kind_free_text": "must-fire mutants and must-stay-silent benign edits applied to scratch copies (./check selftest); not a MANIFEST check"},
 ],
 "checks": checks,
 "not_applicable": na,
 "notes": "All checks are static: they inspect /repo's current source through rustc (type checker, MIR) and never execute RustFFT. Clause-level claims (level 'other') state in level_claimed.text what is and is not decided.",
}
json.dump(m, open('/verif/MANIFEST.json', 'w'), indent=1)
print("claimed:", claimed, "n/a:", [x["property_id"] for x in na])
