import json
m=json.load(open('/verif/selftest/mutants.json'))
b=json.load(open('/verif/selftest/benign.json'))
rows=[]
for e in m:
    rows.append("| `%s` | %s | %s | `%s` |"%(e['name'], e['desc'].replace('|','/'), ", ".join(e['props']), e.get('expect','')))
brows=[]
for e in b:
    brows.append("| `%s` | %s | %s |"%(e['name'], e['desc'].replace('|','/'), ", ".join(e['props'])))
txt=open('/verif/tools/design10.md.in').read()
txt=txt.replace('@MUTANTS@',"\n".join(rows)).replace('@BENIGN@',"\n".join(brows))
seeded=''
try:
    seeded=open('/verif/tools/design_seeded.md.in').read()
except Exception: pass
txt=txt.replace('@SEEDED@',seeded)
s=open('/verif/DESIGN.md').read()
mark='\n---------------------------------------------------------------------------------------------------\n\n## 10. As built'
if mark in s:
    s=s[:s.index(mark)]
s=s.rstrip()+"\n"+txt
open('/verif/DESIGN.md','w').write(s)
print('ok')
